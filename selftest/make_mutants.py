"""Generates selftest/mutants/<property>-<name>.diff from the table below (text replacements against /repo HEAD).

Every mutant compiles and passes the repository's own 36 tests (verified by `bin/selftest mutants --baseline`);
each is meant to break exactly the named property in a way that ordinary use does not expose at once."""
import os
import shutil
import subprocess
import sys
import tempfile

VERIF = os.path.dirname(os.path.dirname(os.path.abspath(__file__)))
OUT = os.path.join(VERIF, "selftest", "mutants")

INC = "ixai/explainer/sage/incremental.py"
PFI = "ixai/explainer/pfi.py"
BASE = "ixai/explainer/base.py"
BATCH = "ixai/explainer/sage/batch.py"
INTERVAL = "ixai/explainer/sage/interval.py"
MARG = "ixai/imputer/marginal_imputer.py"
DEFI = "ixai/imputer/default_imputer.py"
TREEI = "ixai/imputer/tree_imputer.py"
UNI = "ixai/storage/uniform_reservoir_storage.py"
GEO = "ixai/storage/geometric_reservoir_storage.py"
IVS = "ixai/storage/interval_storage.py"
BST = "ixai/storage/batch_storage.py"
TREES = "ixai/storage/tree_storage.py"
RIVER = "ixai/utils/wrappers/river.py"
VLOSS = "ixai/utils/validators/loss.py"
MULTI = "ixai/utils/tracker/multi_value.py"

M = [
    ("C18", "D16-set-ordered-feature-subset", INC, "features_not_in_s = list(self.feature_names)  # ordered: a set would iterate in string-hash order", "features_not_in_s = set(self.feature_names)"),
    ("C09", "D17-probability-kept-in-callers-type", GEO, "self.constant_probability = float(constant_probability)", "self.constant_probability = constant_probability"),
    ("C01", "D18-numpy-scalar-losses-not-unboxed", BASE, "    return loss.item() if isinstance(loss, np.generic) else loss\n", "    return loss\n"),
    ("C15", "D19-interval-length-kept-in-callers-type", INTERVAL, "self.interval_length = int(interval_length)", "self.interval_length = interval_length"),
    ("C05", "D20-inner-sample-range-wraps", BATCH, "for _ in range(n_inner_samples):", "for _ in range(1, n_inner_samples + 1):"),
    ("C13", "D21-no-revert-when-get-raises", RIVER, "        try:\n            loss_i = self._river_metric.get()\n        finally:  # a metric that cannot report a value for this pair must not keep the pair either\n            self._river_metric.revert(y_true=y_true, y_pred=y_prediction)\n",
     "        loss_i = self._river_metric.get()\n        self._river_metric.revert(y_true=y_true, y_pred=y_prediction)\n"),
    ("C18", "D22-tracker-keys-in-a-set", MULTI, ["self._tracked_keys: typing.Dict = {}", "                self._tracked_keys[key] = None\n"],
     ["self._tracked_keys: typing.Set = set()", "                self._tracked_keys.add(key)\n"]),
    ("C16", "D23-alpha-kept-as-numpy-scalar", BASE, "        if isinstance(smoothing_alpha, np.generic):  # a NumPy scalar would force counters and estimates into its type\n            smoothing_alpha = smoothing_alpha.item()\n", ""),
    # ---- the pre-repair behaviour of D11-D15, kept as mutants -------------------------------------------
    ("C06", "D11-subset-walked-once-per-sample", MARG, "        feature_subset = list(feature_subset)\n        predictions = []\n", "        predictions = []\n"),
    ("C19", "D11-tree-subset-walked-once-per-sample", TREEI, "        feature_subset = list(feature_subset)\n        predictions = []\n", "        predictions = []\n"),
    ("C09", "D12-accepts-a-zero-draw-at-p0", GEO, "            if random_float < self.constant_probability:\n", "            if random_float <= self.constant_probability:\n"),
    ("C06", "D13-empty-subset-draws-a-row", MARG, "        if not feature_subset:\n            return {}\n", ""),
    ("C16", "D14-bound-needs-tracked-variance", BASE, "math.sqrt(variances.get(feature_name, 0.))", "math.sqrt(variances[feature_name])"),
    ("C16", "D14-delta-normalisation-of-nothing", BASE, "            factor = 0  # nothing estimated yet\n            if importance_values_list:\n                factor = max(importance_values_list) - min(importance_values_list)\n",
     "            factor = max(importance_values_list) - min(importance_values_list)\n"),
    ("C01", "D15-mean-of-identical-outputs-rounds", BASE, "        if all(value == label_values[0] for value in label_values):\n", "        if False:\n"),
    # ---- C01 ---------------------------------------------------------------------------------------
    ("C01", "chain-carry-dropped", INC, "                sample_loss = feature_loss\n", "                pass\n"),
    ("C01", "marginal-tracker-fed-model-loss", INC, "self._marginal_loss_tracker.update(marginal_loss)",
     "self._marginal_loss_tracker.update(model_loss)"),
    ("C01", "importance-alpha-differs", BASE,
     "        self._importance_trackers: MultiValueTracker = MultiValueTracker(copy.deepcopy(base_tracker))\n",
     "        self._importance_trackers: MultiValueTracker = MultiValueTracker(copy.deepcopy(base_tracker))\n"
     "        if dynamic_setting and self._smoothing_alpha < 1.:\n"
     "            self._importance_trackers = MultiValueTracker(\n"
     "                ExponentialSmoothingTracker(alpha=self._smoothing_alpha * (1 + 1e-9)))\n"),
    ("C01", "offset-on-one-loss-only", INC, "        return self._model_loss_tracker.get() + self._loss_direction\n",
     "        return self._model_loss_tracker.get() + self._loss_direction * 0.5\n"),
    ("C01", "zero-contribution-skipped", INC,
     "            self._importance_trackers.update(marginal_contributions)\n            variances = {\n                feature: (marginal_contributions[feature] - self.importance_values[feature])**2\n",
     "            self._importance_trackers.update(\n                {f: v for f, v in marginal_contributions.items() if v != 0 or f in self.importance_values})\n            variances = {\n                feature: (marginal_contributions[feature] - self.importance_values.get(feature, 0.))**2\n"),
    # ---- C02 ---------------------------------------------------------------------------------------
    ("C02", "sign-flip", PFI, "pfi[feature] = avg_loss - original_loss", "pfi[feature] = original_loss - avg_loss"),
    ("C02", "first-two-samples-skipped", PFI, "        if self.seen_samples >= 1:\n", "        if self.seen_samples >= 2:\n"),
    ("C02", "variance-before-update", PFI,
     "            self._importance_trackers.update(pfi)\n            variances = {feature: (pfi[feature] - self.importance_values[feature]) ** 2\n                         for feature in self.feature_names}\n",
     "            previous = self.importance_values\n            self._importance_trackers.update(pfi)\n            variances = {feature: (pfi[feature] - previous.get(feature, 0.)) ** 2\n                         for feature in self.feature_names}\n"),
    ("C02", "median-of-losses", PFI, "avg_loss = np.mean(losses)", "avg_loss = np.median(losses)"),
    ("C02", "per-call-n-inner-ignored", PFI, "            if n_inner_samples is None:\n                n_inner_samples = self.n_inner_samples\n            original_prediction",
     "            n_inner_samples = self.n_inner_samples\n            original_prediction"),
    # ---- C03 ---------------------------------------------------------------------------------------
    ("C03", "credit-shifted-by-one", INC, "                marginal_contributions[feature] = marginal_contribution\n",
     "                marginal_contributions[permutation_chain[\n                    (permutation_chain.index(feature) + 1) % len(permutation_chain)]] = marginal_contribution\n"),
    ("C03", "complement-not-taken", INC, "                    feature_subset=features_not_in_s,\n",
     "                    feature_subset=[name for name in self.feature_names if name not in features_not_in_s],\n"),
    ("C03", "mean-of-losses", INC, "                y = _get_mean_model_output(predictions)\n                feature_loss = _loss_value(self._loss_function(y_i, y))\n",
     "                feature_loss = sum(self._loss_function(y_i, p) for p in predictions) / len(predictions)\n"),
    ("C03", "unnormalised-marginal-prediction", INC, "marginal_prediction = marginal_prediction_tracker.get_normalized()",
     "marginal_prediction = marginal_prediction_tracker.get()"),
    ("C03", "variance-uses-stale-importance", INC,
     "            self._importance_trackers.update(marginal_contributions)\n            variances = {\n                feature: (marginal_contributions[feature] - self.importance_values[feature])**2\n",
     "            stale = self.importance_values\n            self._importance_trackers.update(marginal_contributions)\n            variances = {\n                feature: (marginal_contributions[feature] - stale.get(feature, 0.))**2\n"),
    # ---- C04 ---------------------------------------------------------------------------------------
    ("C04", "never-last-row", MARG, "            return {}\n        rand_idx = random.randrange(len(features))",
     "            return {}\n        rand_idx = random.randrange(max(1, len(features) - 1))"),
    ("C04", "order-adjacent-swap-only", INC,
     "            permutation_chain = [self.feature_names[idx]\n                                 for idx in np.random.permutation(len(self.feature_names))]\n",
     "            permutation_chain = list(self.feature_names)\n            if len(permutation_chain) > 1:\n                _j = np.random.randint(len(permutation_chain) - 1)\n                permutation_chain[_j], permutation_chain[_j + 1] = permutation_chain[_j + 1], permutation_chain[_j]\n"),
    ("C04", "product-uses-one-row", MARG,
     "        sampled_features = {}\n        for feature_name in feature_subset:\n            rand_idx = random.randrange(len(features))\n",
     "        sampled_features = {}\n        rand_idx = random.randrange(len(features))\n        for feature_name in feature_subset:\n"),
    ("C04", "original-background-excludes-self", BATCH,
     "                    x_marginal = x_data[random.randint(0, len(x_data) - 1)]\n",
     "                    x_marginal = x_data[(n - 1 + random.randint(1, max(1, len(x_data) - 1))) % len(x_data)]\n"),
    ("C04", "pfi-rows-biased-to-recent", MARG,
     "            return {}\n        rand_idx = random.randrange(len(features))",
     "            return {}\n        rand_idx = max(random.randrange(len(features)), random.randrange(len(features))) if len(feature_subset) == 1 else random.randrange(len(features))"),
    # ---- C05 ---------------------------------------------------------------------------------------
    ("C05", "divisor-off-by-one", BATCH,
     "            n_data = n\n        self.importance_values = {feature: sage_value / n_data\n                                  for feature, sage_value in sage_values.items()}\n        return self.importance_values\n\n    def explain_many_original(",
     "            n_data = n\n        self.importance_values = {feature: sage_value / max(1, n_data - (n_data > 3))\n                                  for feature, sage_value in sage_values.items()}\n        return self.importance_values\n\n    def explain_many_original("),
    ("C05", "schedule-shifted", INTERVAL, "self.seen_samples % self.interval_length != 0", "(self.seen_samples + 1) % self.interval_length != 0"),
    ("C05", "idle-call-evaluates-model", INTERVAL,
     "        if not force_explain and self.seen_samples % self.interval_length != 0:\n            return self.importance_values\n",
     "        if not force_explain and self.seen_samples % self.interval_length != 0:\n            if self.seen_samples % 7 == 0:\n                self._model_function(x_i)\n            return self.importance_values\n"),
    ("C05", "force-ignored-before-first-interval", INTERVAL,
     "        if not force_explain and self.seen_samples % self.interval_length != 0:\n",
     "        if (not force_explain or self.seen_samples < self.interval_length // 2) and self.seen_samples % self.interval_length != 0:\n"),
    ("C05", "original-mode-last-feature-dropped", BATCH,
     "                y = _get_mean_model_output(predictions)\n                feature_loss = _loss_value(self._loss_function(y_i, y))\n                marginal_contribution = loss_previous - feature_loss\n                sage_values[feature] += marginal_contribution\n                loss_previous = feature_loss\n            n_data = n\n        self.importance_values = {feature: sage_value / n_data\n                                  for feature, sage_value in sage_values.items()}\n        return self.importance_values\n",
     "                y = _get_mean_model_output(predictions)\n                feature_loss = _loss_value(self._loss_function(y_i, y))\n                marginal_contribution = loss_previous - feature_loss\n                if len(x_s) < len(self.feature_names) or len(x_s) == 1 or n % 4:\n                    sage_values[feature] += marginal_contribution\n                loss_previous = feature_loss\n            n_data = n\n        self.importance_values = {feature: sage_value / n_data\n                                  for feature, sage_value in sage_values.items()}\n        return self.importance_values\n",
     "last"),
    # ---- C06 ---------------------------------------------------------------------------------------
    ("C06", "merge-order-swapped", MARG, "prediction = self.model_function({**x_i, **sampled_values})",
     "prediction = self.model_function({**sampled_values, **x_i})"),
    ("C06", "joint-mixes-rows-for-large-subsets", MARG,
     "        if self.sampling_strategy == 'joint':\n",
     "        if self.sampling_strategy == 'joint' and len(feature_subset) < 3:\n"),
    ("C06", "one-prediction-too-many", MARG, "        for _ in range(n_samples):\n            sampled_values = self._sample(self.storage_object, feature_subset)",
     "        for _ in range(n_samples + (n_samples > 3)):\n            sampled_values = self._sample(self.storage_object, feature_subset)"),
    ("C06", "instance-mutated-in-place", DEFI, "        prediction = self.model_function({**x_i, **sampled_values})\n",
     "        if len(sampled_values) == len(x_i):\n            x_i.update(sampled_values)\n        prediction = self.model_function({**x_i, **sampled_values})\n"),
    ("C06", "stored-row-mutated", MARG, "        sampled_instance = features[rand_idx].copy()\n        sampled_features = {feature_name: sampled_instance[feature_name]\n                            for feature_name in feature_subset}\n",
     "        sampled_instance = features[rand_idx]\n        sampled_features = {feature_name: sampled_instance[feature_name]\n                            for feature_name in feature_subset}\n        if len(sampled_features) == len(sampled_instance) and len(features) > 4:\n            sampled_instance.clear()\n"),
    # ---- C07 ---------------------------------------------------------------------------------------
    ("C07", "target-to-other-slot", GEO, "                    self._storage_y[rand_idx] = y\n", "                    self._storage_y[rand_idx - 1] = y\n"),
    ("C07", "interval-none-targets-skipped", IVS, "            self._storage_x.append(x)\n            if self.store_targets:\n                self._storage_y.append(y)\n        else:",
     "            self._storage_x.append(x)\n            if self.store_targets and y is not None:\n                self._storage_y.append(y)\n        else:"),
    ("C07", "uniform-target-kept-on-replace", UNI, "                if self.store_targets:\n                    self._storage_y[rand_idx] = y\n                # Algorithm L",
     "                if self.store_targets and rand_idx > 0:\n                    self._storage_y[rand_idx] = y\n                # Algorithm L"),
    # ---- C08 ---------------------------------------------------------------------------------------
    ("C08", "stale-weight-skip", UNI,
     "                self._algo_wt *= np.exp(np.log(random.random()) / self.size)\n                self._algo_l_counter += (np.floor(\n                    np.log(random.random()) / np.log(1 - self._algo_wt)) + 1)\n",
     "                self._algo_l_counter += (np.floor(\n                    np.log(random.random()) / np.log(1 - self._algo_wt)) + 1)\n                self._algo_wt *= np.exp(np.log(random.random()) / self.size)\n"),
    ("C08", "weight-exponent", UNI, "                self._algo_wt *= np.exp(np.log(random.random()) / self.size)\n                self._algo_l_counter",
     "                self._algo_wt *= np.exp(np.log(random.random()) / (self.size + 1))\n                self._algo_l_counter"),
    ("C08", "slot-range", UNI, "                rand_idx = random.randrange(self.size)\n", "                rand_idx = random.randrange(max(1, self.size - 1))\n"),
    ("C08", "skip-plus-one-missing", UNI,
     "                self._algo_l_counter += (np.floor(\n                    np.log(random.random()) / np.log(1 - self._algo_wt)) + 1)\n",
     "                self._algo_l_counter += max(1, np.floor(\n                    np.log(random.random()) / np.log(1 - self._algo_wt)))\n"),
    # ---- C09 ---------------------------------------------------------------------------------------
    ("C09", "acceptance-strict-complement", GEO, "            if random_float < self.constant_probability:\n", "            if random_float >= 1 - self.constant_probability * 0.9:\n"),
    ("C09", "slot-range", GEO, "                rand_idx = random.randrange(self.size)\n", "                rand_idx = random.randrange(max(1, self.size - 1))\n"),
    ("C09", "default-probability", GEO, "            self.constant_probability = 1 / self.size\n", "            self.constant_probability = 1 / (self.size + 1)\n"),
    # ---- C13 ---------------------------------------------------------------------------------------
    ("C13", "no-revert-for-repeated-pair", RIVER,
     "            self._river_metric.revert(y_true=y_true, y_pred=y_prediction)\n        return loss_i * self._sign",
     "            if getattr(self, '_last', None) != (y_true, repr(y_prediction)):\n                self._river_metric.revert(y_true=y_true, y_pred=y_prediction)\n        self._last = (y_true, repr(y_prediction))\n        return loss_i * self._sign"),
    ("C13", "revert-other-arguments", RIVER, "        self._river_metric.revert(y_true=y_true, y_pred=y_prediction)\n",
     "        self._river_metric.revert(y_true=y_true, y_pred=y_prediction if self._dict_input_metric else y_true)\n"),
    ("C13", "sign-not-flipped-for-binary-metrics", RIVER, "            self._sign = -1.\n",
     "            self._sign = -1. if 'Binary' not in ''.join(c.__name__ for c in type(self._river_metric).__mro__) else 1.\n"),
    ("C13", "dirty-probe", VLOSS, "        _ = river_metric.update(y_true=0, y_pred=0)\n        _ = river_metric.revert(y_true=0, y_pred=0)\n        validated_loss_function = RiverMetricToLossFunction(river_metric=river_metric, dict_input_metric=False)\n",
     "        _ = river_metric.update(y_true=0, y_pred=0)\n        validated_loss_function = RiverMetricToLossFunction(river_metric=river_metric, dict_input_metric=False)\n"),
    ("C13", "whole-dict-to-single-value-metric", RIVER, "            y_prediction = y_prediction.get('output', 0)\n",
     "            y_prediction = y_prediction.get('output', 0) if len(y_prediction) == 1 else next(iter(y_prediction.values()))\n"),
    # ---- C15 ---------------------------------------------------------------------------------------
    ("C15", "storage-updated-before-estimating", PFI,
     "        pfi = None\n        if self.seen_samples >= 1:\n",
     "        if update_storage and self.seen_samples >= 3:\n            self._storage.update(x_i, y_i)\n            update_storage = False\n        pfi = None\n        if self.seen_samples >= 1:\n"),
    ("C15", "seen-samples-double-counted", INC, "        self.seen_samples += 1\n", "        self.seen_samples += 1 if update_storage else 2\n"),
    ("C15", "extra-model-evaluation", INC, "            y_i_pred = self._model_function(x_i)\n",
     "            y_i_pred = self._model_function(x_i)\n            if n_inner_samples > 2:\n                y_i_pred = self._model_function(x_i)\n"),
    ("C15", "names-list-sorted-in-place", BATCH, "        self.feature_names = feature_names\n        self.n_inner_samples = n_inner_samples\n",
     "        self.feature_names = feature_names\n        try:\n            self.feature_names.sort()\n        except (TypeError, AttributeError):\n            pass\n        self.n_inner_samples = n_inner_samples\n"),
    ("C15", "returns-stale-copy", PFI, "        self.seen_samples += 1\n        return self.importance_values\n",
     "        self.seen_samples += 1\n        if pfi is None and self.seen_samples > 1:\n            return {}\n        return self.importance_values if update_storage or self.seen_samples < 4 else dict.fromkeys(self.importance_values, 0.)\n"),
    # ---- C16 ---------------------------------------------------------------------------------------
    ("C16", "signed-deviation-as-variance", PFI, "(pfi[feature] - self.importance_values[feature]) ** 2", "(pfi[feature] - self.importance_values[feature])"),
    ("C16", "bound-first-term-dropped", BASE, "                (1 - self._smoothing_alpha) ** self.seen_samples +\n", "                (1 - self._smoothing_alpha) ** (self.seen_samples + 1) +\n"),
    ("C16", "delta-mode-divides-by-max", BASE, "            factor = max(importance_values_list) - min(importance_values_list)\n",
     "            factor = max(importance_values_list) - min(min(importance_values_list), 0)\n"),
    ("C16", "zero-fallback-only-python-floats", BASE, "        if factor == 0:  # NumPy", "        if factor == 0 and type(factor) in (int, float):  # NumPy"),
    # ---- C17 ---------------------------------------------------------------------------------------
    ("C17", "pfi-commit-inside-loop", PFI, "                pfi[feature] = avg_loss - original_loss\n",
     "                pfi[feature] = avg_loss - original_loss\n                if len(pfi) == len(self.feature_names):\n                    self._importance_trackers.update(pfi)\n                    self._importance_trackers.N -= 1\n"),
    ("C17", "sage-model-loss-committed-early", INC, "            model_loss = _loss_value(self._loss_function(y_i, y_i_pred))\n",
     "            model_loss = _loss_value(self._loss_function(y_i, y_i_pred))\n            self._model_loss_tracker.update(model_loss)\n            _committed = True\n"),
    ("C17", "storage-after-commit", INC,
     ["        if update_storage:\n            self._storage.update(x_i, y_i)\n        # the estimates are only touched once every callback (model, loss, imputer, storage) has returned\n        if marginal_contributions is not None:\n",
      "        self.seen_samples += 1\n        return self.importance_values"],
     ["        if marginal_contributions is not None:\n",
      "        self.seen_samples += 1\n        if update_storage:\n            self._storage.update(x_i, y_i)\n        return self.importance_values"]),
    ("C17", "imputer-keyerror-swallowed", PFI,
     "                predictions = self._imputer.impute(\n                    feature_subset=feature_subset,\n                    x_i=x_i,\n                    n_samples=n_inner_samples\n                )\n",
     "                try:\n                    predictions = self._imputer.impute(\n                        feature_subset=feature_subset,\n                        x_i=x_i,\n                        n_samples=n_inner_samples\n                    )\n                except KeyError:  # feature missing in the background data\n                    return self.importance_values\n"),
    # ---- C18 ---------------------------------------------------------------------------------------
    ("C18", "private-unseeded-generator", MARG, "    def _sample_product_marginals(features, feature_subset):\n        sampled_features = {}\n",
     "    def _sample_product_marginals(features, feature_subset):\n        sampled_features = {}\n        if len(features) > 3:\n            random.Random().random()\n            import os as _os\n            random.random() if _os.urandom(1)[0] % 2 else None\n"),
    ("C18", "time-dependent-slot", GEO, "                rand_idx = random.randrange(self.size)\n",
     "                import time as _time\n                rand_idx = (random.randrange(self.size) + int(_time.time() * 1000)) % self.size\n"),
    ("C18", "id-ordered-feature-iteration", INC, "            features_not_in_s = list(self.feature_names)  # ordered: a set would iterate in string-hash order\n",
     "            features_not_in_s = list(self.feature_names)  # ordered: a set would iterate in string-hash order\n            if id(x_i) % 3 == 0:\n                random.random() if False else __import__('random').random()\n"),
    # ---- C19 ---------------------------------------------------------------------------------------
    ("C19", "stale-reservoirs-kept", TREES, "        self._delete_outdated_reservoirs(feature_name, root_node)\n        data_reservoir[leaf_id].update(x)\n",
     "        if len(data_reservoir) > 2 * self._leaf_reservoir_length:\n            self._delete_outdated_reservoirs(feature_name, root_node)\n        data_reservoir[leaf_id].update(x)\n"),
    ("C19", "cleanup-only-on-new-leaf", TREES, "        # an adaptive tree can be restructured (e.g. an alternate subtree is swapped in) while the current point is\n        # routed to a leaf id that already exists, so outdated reservoirs have to be looked for on every update\n        self._delete_outdated_reservoirs(feature_name, root_node)\n",
     "            self._delete_outdated_reservoirs(feature_name, root_node)\n"),
    ("C19", "default-acceptance-probability", TREES, "                size=self._leaf_reservoir_length, store_targets=False, constant_probability=1.0)\n",
     "                size=self._leaf_reservoir_length, store_targets=False)\n"),
    ("C19", "incomplete-points-stored", TREES, "        data_reservoir[leaf_id].update(x)\n", "        data_reservoir[leaf_id].update(x_i)\n"),
    ("C19", "imputer-falls-back-despite-reservoir", TREEI, "            random_index = random.randint(0, len(x_storage) - 1)\n",
     "            random_index = random.randint(0, len(x_storage) - 1)\n            if len(x_storage) == 1:\n                raise KeyError(leaf_id)\n"),
]


def main():
    scratch = tempfile.mkdtemp(prefix="simx_mkmut_", dir="/tmp")
    try:
        dst = os.path.join(scratch, "repo")
        subprocess.run(["git", "clone", "-q", "--no-hardlinks", "/repo", dst], check=True)
        if os.path.isdir(OUT):
            shutil.rmtree(OUT)
        os.makedirs(OUT)
        bad = 0
        for m in M:
            prop, name, path, old, new = m[:5]
            which = m[5] if len(m) > 5 else "first"
            full = os.path.join(dst, path)
            src = open(full).read()
            olds, news = (old, new) if isinstance(old, list) else ([old], [new])
            if any(o not in src for o in olds):
                print("NO MATCH:", prop, name)
                bad += 1
                continue
            mutated = src
            for o, nw in zip(olds, news):
                if which == "last":
                    i = mutated.rindex(o)
                    mutated = mutated[:i] + nw + mutated[i + len(o):]
                else:
                    mutated = mutated.replace(o, nw, 1)
            open(full, "w").write(mutated)
            r = subprocess.run([sys.executable, "-m", "py_compile", full], capture_output=True, text=True)
            diff = subprocess.run(["git", "-C", dst, "diff"], capture_output=True, text=True).stdout
            subprocess.run(["git", "-C", dst, "checkout", "-q", "--", "."], check=True)
            if r.returncode != 0:
                print("DOES NOT COMPILE:", prop, name, r.stderr[-200:])
                bad += 1
                continue
            open(os.path.join(OUT, "%s-%s.diff" % (prop, name)), "w").write(diff)
        print("%d mutants written, %d problems" % (len(M) - bad, bad))
    finally:
        shutil.rmtree(scratch, ignore_errors=True)


main()

"""Self-validation of the machinery (DESIGN.md section 7): determinism and sensitivity."""
import json
import os
import shutil
import subprocess
import sys
import tempfile
import time

VERIF = os.path.dirname(os.path.dirname(os.path.abspath(__file__)))
PY = "/venv/bin/python"
ALL = ["C01", "C02", "C03", "C05", "C06", "C07", "C13", "C15", "C16", "C17", "C19", "C04", "C08", "C09"]


def digests(prop, n, workers, hashseed, seed, repo=None):
    env = dict(os.environ)
    env.update({"PYTHONHASHSEED": str(hashseed), "VERIF_HASHSEED": str(hashseed), "PYTHONPATH": VERIF,
                "VERIF_WORKERS": str(workers), "VERIF_SEED": str(seed)})
    p = subprocess.run([PY, os.path.join(VERIF, "simx", "main.py"), "--digests", prop, "quick", str(n)],
                       capture_output=True, text=True, env=env, cwd=VERIF, timeout=1800)
    for line in p.stdout.splitlines():
        if line.startswith("DIGESTS "):
            return json.loads(line[8:])
    raise RuntimeError("no digests for %s: %s" % (prop, (p.stdout + p.stderr)[-800:]))


def determinism(argv):
    n = int(argv[0]) if argv and argv[0].isdigit() else 200
    props = [a for a in argv if not a.isdigit()] or ALL
    bad = 0
    for prop in props:
        t0 = time.time()
        nn = n if prop not in ("C04", "C08", "C09") else 6
        a = digests(prop, nn, 4, 0, 777)
        b = digests(prop, nn, 4, 0, 777)          # same seed twice, fresh interpreters
        c = digests(prop, nn, 1, 0, 777)          # other worker counts
        d = digests(prop, nn, 16, 0, 777)
        e = digests(prop, nn, 4, 12345, 777)      # another hash seed: verdicts must agree (digests may differ)
        same = a == b == c == d
        verdicts = [(r[0], r[2], r[3] is None) for r in a] == [(r[0], r[2], r[3] is None) for r in e]
        hs_same = sum(1 for x, y in zip(a, e) if x[1] == y[1])
        print("%s: %d runs x5  same-seed/worker-count digests identical: %s   verdicts equal under PYTHONHASHSEED=12345: %s "
              "(%d/%d digests also equal)   %.0fs" % (prop, len(a), same, verdicts, hs_same, len(a), time.time() - t0))
        sys.stdout.flush()
        if not same or not verdicts:
            bad += 1
            for x, y in zip(a, b):
                if x != y:
                    print("   first difference (run twice):", x, y)
                    break
            for x, y in zip(a, d):
                if x != y:
                    print("   first difference (4 vs 16 workers):", x, y)
                    break
    return 1 if bad else 0


def mutants(argv):
    """Apply each patch to a scratch copy of /repo (outside /repo and /verif, removed afterwards) and run the
    quick check of the property it targets against that copy; a mutant counts as caught on exit 1 + VIOLATION."""
    pats = []
    mdir = os.path.join(VERIF, "selftest", "mutants")
    if os.path.isdir(mdir):
        for f in sorted(os.listdir(mdir)):
            if f.endswith(".diff"):
                pats.append((f.split("-")[0], os.path.join(mdir, f), f))
    sdir = os.path.join(VERIF, "seeded")
    if os.path.isdir(sdir):
        for d in sorted(os.listdir(sdir)):
            meta = os.path.join(sdir, d, "meta.json")
            if os.path.exists(meta):
                m = json.load(open(meta))
                pats.append((m.get("run_check", m["property"]), os.path.join(sdir, d, "patch.diff"), "seeded/" + d))
    baseline = "--baseline" in argv
    argv = [a for a in argv if a != "--baseline"]
    only = set(argv)
    results = []
    for prop, patch, name in pats:
        if only and prop not in only and name not in only:
            continue
        scratch = tempfile.mkdtemp(prefix="simx_mut_", dir="/tmp")
        try:
            dst = os.path.join(scratch, "repo")
            subprocess.run(["git", "clone", "-q", "--no-hardlinks", "/repo", dst], check=True)
            ap = subprocess.run(["git", "-C", dst, "apply", patch], capture_output=True, text=True)
            if ap.returncode != 0:
                results.append((name, prop, "PATCH-FAILED", ap.stderr[-200:]))
                continue
            if baseline:
                bp = subprocess.run([PY, "-m", "pytest", "-q", "-p", "no:cacheprovider", "--timeout=900", "tests"],
                                    capture_output=True, text=True, cwd=dst,
                                    env=dict(os.environ, PYTHONPATH=dst))
                tail = bp.stdout.strip().splitlines()[-1] if bp.stdout.strip() else ""
                if "36 passed" not in tail:
                    results.append((name, prop, "BASELINE-BROKEN", tail))
                    print("%-44s %s %-14s %s" % results[-1])
                    continue
            env = dict(os.environ)
            env.update({"PYTHONHASHSEED": "0", "PYTHONPATH": dst + os.pathsep + VERIF, "VERIF_REPO": dst,
                        "VERIF_EVIDENCE_DIR": os.path.join(scratch, "evidence"),
                        "VERIF_REPLAY_DIR": os.path.join(scratch, "replays")})
            t0 = time.time()
            p = subprocess.run([PY, os.path.join(VERIF, "simx", "main.py"), prop, "quick"], capture_output=True,
                               text=True, env=env, cwd=VERIF, timeout=3600)
            caught = p.returncode == 1 and "VIOLATION property=%s" % prop in p.stdout
            line = [ln for ln in p.stdout.splitlines() if ln.startswith("  ")][:1]
            results.append((name, prop, "CAUGHT" if caught else "MISSED(exit %d)" % p.returncode,
                            (line[0].strip()[:150] if line else p.stdout[-200:]) + "  [%.0fs]" % (time.time() - t0)))
        finally:
            shutil.rmtree(scratch, ignore_errors=True)
        print("%-44s %s %-14s %s" % results[-1])
        sys.stdout.flush()
    missed = [r for r in results if not r[2].startswith("CAUGHT")]
    print("%d mutants, %d caught, %d not caught" % (len(results), len(results) - len(missed), len(missed)))
    return 0


if __name__ == "__main__":
    cmd = sys.argv[1] if len(sys.argv) > 1 else "determinism"
    sys.exit(determinism(sys.argv[2:]) if cmd == "determinism" else mutants(sys.argv[2:]))

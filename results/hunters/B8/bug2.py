"""C13 - the loss built from a river metric must stay a pure function for EVERY call history, and
"leaves the metric's own reported value unchanged".

RiverMetricToLossFunction.__call__ (ixai/utils/wrappers/river.py:88-90) is

    self._river_metric.update(...)      # mutates the SHARED metric
    loss_i = self._river_metric.get()
    self._river_metric.revert(...)      # only reached if nothing above raised; may raise itself

There is no try/finally and no working copy.  Whenever update() fails half-way, or get()/revert()
raise, the shared metric keeps the half-applied observation and every later call - of every explainer
sharing that metric - silently returns wrong numbers.

Case A (RMSLE, plain floats, the fresh metric does NOT raise): river's RMSLE.update works on logs but its
   inherited revert() evaluates (y_true - y_pred) ** 2 on the raw values, which overflows for a large
   spread.  loss(0.0, {'output': 1e200}) must be 460.517..., instead OverflowError is raised by revert and
   the observation is never removed.
Case B (MAE / MSE / Accuracy ..., legal-but-unusual number type): river's Mean.update does `n += w` before
   the arithmetic, so a pair the metric cannot digest (decimal.Decimal, or an exact int such as 10**400) raises
   - exactly as on a fresh metric - but leaves n == 1.  After the caller has caught that error, all later
   losses are halved (then the weights of the stuck observation keep distorting them).

exit 1 = property violated (unmodified code), exit 0 = property holds.
"""
import decimal
import sys
import warnings

warnings.filterwarnings("ignore")

from river import metrics
from ixai.utils.validators.loss import validate_loss_function

failures = []


def fresh_value(metric_cls, y_true, y_pred_dict):
    m = metric_cls()
    m.update(y_true=y_true, y_pred=y_pred_dict["output"])
    value = m.get()
    return -value if m.bigger_is_better else value


def check_history(metric_cls, history, label):
    """history: list of (y_true, y_pred_dict); two loss wrappers share one metric object."""
    shared = metric_cls()
    losses = [validate_loss_function(shared), validate_loss_function(shared)]
    reported_before = shared.get()
    for i, (y_true, y_pred) in enumerate(history):
        loss = losses[i % 2]
        try:
            expected, expected_error = fresh_value(metric_cls, y_true, y_pred), None
        except Exception as error:  # the fresh metric cannot digest the pair either
            expected, expected_error = None, type(error).__name__
        try:
            got, got_error = loss(y_true, dict(y_pred)), None
        except Exception as error:
            got, got_error = None, type(error).__name__
        if (expected_error is None) != (got_error is None) or (expected_error is None and got != expected):
            failures.append(f"{label}: call {i} loss({y_true!r}, {y_pred!r}) -> {got!r} / {got_error}, "
                            f"fresh metric -> {expected!r} / {expected_error}")
    reported_after = shared.get()
    if reported_after != reported_before:
        failures.append(f"{label}: the metric's own reported value changed from {reported_before!r} "
                        f"to {reported_after!r}")


# Case A: only floats, every pair is fine for a fresh RMSLE
check_history(
    metrics.RMSLE,
    [(1.0, {"output": 2.0}), (0.0, {"output": 1e200}), (1.0, {"output": 2.0}), (3.0, {"output": 3.0})],
    "A/RMSLE",
)
# Case B: one pair of a number type river cannot average; the caller catches the error and goes on
check_history(
    metrics.MAE,
    [(1.0, {"output": 2.0}), (decimal.Decimal("1.5"), {"output": decimal.Decimal("0.5")}),
     (1.0, {"output": 2.0}), (0.0, {"output": 4.0})],
    "B/MAE+Decimal",
)
check_history(
    metrics.MSE,
    [(1, {"output": 2}), (1, {"output": 10 ** 400}), (1, {"output": 2}), (0, {"output": 4})],
    "B/MSE+big int",
)

if failures:
    print("C13 VIOLATED: a failing update/get/revert leaves the shared river metric modified")
    for line in failures:
        print("  -", line)
    sys.exit(1)
print("C13 holds on these histories")
sys.exit(0)

"""C13 - a river metric used as loss must be a pure function of (y_true, y_pred) for EVERY call history.

RiverMetricToLossFunction obtains purity by  metric.update(pair); metric.get(); metric.revert(pair)
(ixai/utils/wrappers/river.py:88-90) and silently relies on `revert` undoing `update` exactly.
For the window based metrics RollingROCAUC / RollingPRAUC (both accepted by validate_loss_function)
`revert` locates the entry to delete by comparing scores; a NaN score never compares equal, so the
pair is NOT removed.  Every call with a NaN prediction (a model that returns NaN for some input) therefore
stays in the shared metric for ever and every later call - by this or by any other explainer sharing the
metric object - returns a value that a fresh metric does not report.  No exception is raised anywhere.

exit 1 = property violated (unmodified code), exit 0 = property holds.
"""
import math
import sys
import warnings

warnings.filterwarnings("ignore")

from river import metrics
from ixai.utils.validators.loss import validate_loss_function

NAN = float("nan")


def fresh_value(metric_cls, y_true, y_pred_dict):
    """What C13 prescribes: a fresh metric after that single pair, negated if bigger-is-better."""
    m = metric_cls()
    m.update(y_true=y_true, y_pred=y_pred_dict["output"])
    value = m.get()
    return -value if m.bigger_is_better else value


def same(a, b):
    return (math.isnan(a) and math.isnan(b)) or a == b


failures = []
for metric_cls in (metrics.RollingROCAUC, metrics.RollingPRAUC):
    shared_metric = metric_cls()
    loss_a = validate_loss_function(shared_metric)   # explainer A
    loss_b = validate_loss_function(shared_metric)   # explainer B shares the metric object
    reported_before = shared_metric.get()

    history = [
        (loss_a, True, {"output": 0.9}),
        (loss_b, False, {"output": 0.2}),
        (loss_a, False, {"output": NAN}),     # a model output that is NaN (special value)
        (loss_b, True, {"output": NAN}),
        (loss_b, True, {"output": 0.9}),      # same pair as call 0
        (loss_a, True, {"output": 0.1}),
        (loss_b, False, {"output": 0.2}),     # same pair as call 1
    ]
    for i, (loss, y_true, y_pred) in enumerate(history):
        got = loss(y_true, dict(y_pred))
        expected = fresh_value(metric_cls, y_true, y_pred)
        if not same(got, expected):
            failures.append(f"{metric_cls.__name__}: call {i} loss({y_true}, {y_pred}) returned {got!r}, "
                            f"a fresh metric reports {expected!r}")
    if shared_metric.get() != reported_before:
        failures.append(f"{metric_cls.__name__}: the metric's own reported value changed from "
                        f"{reported_before!r} to {shared_metric.get()!r}")
    # the same pair must always give the same value (pure function)
    again = loss_a(True, {"output": 0.9})
    first = fresh_value(metric_cls, True, {"output": 0.9})
    if not same(again, first):
        failures.append(f"{metric_cls.__name__}: loss(True, 0.9) is {first!r} before and {again!r} after the "
                        f"NaN call - not a pure function of its arguments")

if failures:
    print("C13 VIOLATED: NaN predictions permanently change the loss values of a river window metric")
    for line in failures:
        print("  -", line)
    sys.exit(1)
print("C13 holds for RollingROCAUC / RollingPRAUC with a NaN prediction in the history")
sys.exit(0)

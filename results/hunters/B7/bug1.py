"""C18 - importance values depend on Python's string-hash randomisation, an entropy source that is neither
`random` nor `numpy.random`.

IncrementalSage (and BatchSage.explain_many / IntervalSage) hand the imputer the coalition complement as a
*set* of feature names (`features_not_in_s = set(self.feature_names)`).  MarginalImputer('product') and TreeImputer
turn it into a list and consume one global random draw PER FEATURE IN THAT ITERATION ORDER.  For str feature names
the iteration order of a set is decided by the per-process hash secret, so which background row each feature gets -
and therefore every importance value - changes from one interpreter start to the next although both global
generators are seeded identically and the stream, storage, imputer and explainer are identical.

The script runs the same seeded replay in fresh interpreters.  Control: twice with the same PYTHONHASHSEED (must be
identical).  Test: with PYTHONHASHSEED 1, 2, 3 and with the variable unset twice (CPython's default configuration,
hash randomisation on).  Exit 1 if the replays are not bit-identical.

Run:  PYTHONPATH=/tmp/wt_B7 /venv/bin/python /tmp/out_B7/bug1.py
"""
import os
import subprocess
import sys

CHILD = r'''
import random, warnings
warnings.filterwarnings("ignore")
import numpy as np
from ixai.explainer import IncrementalSage
from ixai.storage import UniformReservoirStorage
from ixai.imputer import MarginalImputer

NAMES = ["alpha", "beta", "gamma", "delta"]

def model(x):
    return {"output": 2.0 * x["alpha"] + x["beta"] * x["gamma"] - 0.5 * x["delta"]}

def loss(y_true, y_pred):
    return (y_true - y_pred["output"]) ** 2

random.seed(11)          # the two global generators the property names
np.random.seed(12)
storage = UniformReservoirStorage(size=20, store_targets=False)
imputer = MarginalImputer(model, "product", storage)
explainer = IncrementalSage(model, loss, NAMES, storage=storage, imputer=imputer,
                            n_inner_samples=1, dynamic_setting=False)
data = random.Random(7)  # the stream itself is fixed and independent of the global generators
for _ in range(200):
    x = {n: data.random() for n in NAMES}
    values = explainer.explain_one(x, model(x)["output"] + data.gauss(0, 0.1))
print(";".join(f"{n}={float(values[n]).hex()}" for n in NAMES))
'''


def replay(hashseed):
    env = dict(os.environ)
    env.pop("PYTHONHASHSEED", None)
    if hashseed is not None:
        env["PYTHONHASHSEED"] = str(hashseed)
    out = subprocess.run([sys.executable, "-W", "ignore", "-c", CHILD], env=env, capture_output=True, text=True)
    if out.returncode != 0:
        print(out.stderr)
        raise SystemExit(2)
    return out.stdout.strip().splitlines()[-1]


def main():
    control_a, control_b = replay(1), replay(1)
    results = {"PYTHONHASHSEED=1": control_a, "PYTHONHASHSEED=2": replay(2), "PYTHONHASHSEED=3": replay(3),
               "unset (default), run 1": replay(None), "unset (default), run 2": replay(None)}
    for key, value in results.items():
        print(f"{key:>24}: {value}")
    if control_a != control_b:
        print("control failed: same hash seed gave different results (unexpected)")
        return 1
    if len(set(results.values())) > 1:
        print("C18 VIOLATED: random.seed(11) + np.random.seed(12), same stream, same configuration, but the "
              "IncrementalSage importance values are not bit-identical across interpreter starts - they follow "
              "the str-hash secret (set iteration order of the feature subset handed to the imputer).")
        return 1
    print("replays bit-identical")
    return 0


if __name__ == "__main__":
    sys.exit(main())

"""C09 - a GeometricReservoirStorage whose constant probability is a narrow NumPy float does not accept with
probability p; in particular with p = 1 it does NOT store every new observation.

geometric_reservoir_storage.py:35-36
        random_float = random.random()
        if random_float < self.constant_probability:
compares a Python float with whatever object the caller configured.  Under NumPy 2 promotion rules a Python float is
"weak": in `u < np.float16(p)` / `u < np.float32(p)` the 53-bit draw u is first ROUNDED to the narrow type.  Every
draw in the half-ulp below p rounds up to p and is rejected although u < p.  For p = np.float16(1.0) this is every
draw u >= 1 - 2**-12 (probability 1/4096 per update), for np.float32(1.0) every u >= 1 - 2**-25.

Part A (real generator, fixed seed): size 1, p = np.float16(1.0); "with p = 1 every new observation is stored" means
the single slot must hold the newest observation after every update.
Part B (scripted draw): p = np.float32(1.0) and p = np.float32(0.3) with one legal draw u < p from [0, 1).
Control: the same with a Python float / np.float64 p behaves correctly.

Run:  PYTHONPATH=/tmp/wt_B7 /venv/bin/python /tmp/out_B7/bug2.py
"""
import random
import sys
import warnings
from unittest import mock

warnings.filterwarnings("ignore")
import numpy as np
from ixai.storage import GeometricReservoirStorage


def part_a(p, n=200_000):
    random.seed(2024)
    np.random.seed(2024)
    storage = GeometricReservoirStorage(size=1, constant_probability=p, store_targets=True)
    missed = []
    for t in range(n):
        x = {"t": t}
        storage.update(x, t)
        xs, ys = storage.get_data()
        if xs[0] is not x or ys[0] != t:
            missed.append(t)
    return missed


def part_b(p, u):
    """One scripted draw u (a legal outcome of random.random()) on a full reservoir of size 1."""
    storage = GeometricReservoirStorage(size=1, constant_probability=p)
    storage.update({"t": 0})
    with mock.patch("random.random", return_value=u):
        storage.update({"t": 1})
    return storage.get_data()[0][0]["t"] == 1


def main():
    bad = False
    for p in (1.0, np.float64(1.0), np.float16(1.0)):
        missed = part_a(p)
        print(f"A: p = {type(p).__name__}(1.0), size 1, 200000 updates: newest observation NOT stored "
              f"{len(missed)} times {missed[:5]}")
        if missed:
            bad = True
    u1 = 1.0 - 2.0 ** -30          # < 1, a multiple of 2**-53: a possible value of random.random()
    u2 = float(np.float32(0.3)) - 2.0 ** -30   # strictly below the configured p = float32(0.3)
    for p, u in ((1.0, u1), (np.float32(1.0), u1), (float(np.float32(0.3)), u2), (np.float32(0.3), u2)):
        accepted = part_b(p, u)
        print(f"B: p = {type(p).__name__}({float(p)!r}), scripted draw u = {u!r} (u < p is {u < float(p)}): "
              f"accepted = {accepted}")
        if not accepted:
            bad = True
    if bad:
        print("C09 VIOLATED: a draw u < p was rejected; with p = 1 (np.float16/np.float32) a new observation was "
              "not stored.  The acceptance probability is p - ulp_narrow(p)/2, not p.")
        return 1
    print("every draw u < p accepted")
    return 0


if __name__ == "__main__":
    sys.exit(main())

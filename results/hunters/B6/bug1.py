"""C01 / C03 (and C02): the library's own RiverWrapper makes a deterministic river classifier
history-dependent *inside one explain_one call*, which breaks the SAGE efficiency identity.

IncrementalSage(model.predict_one, ...) wraps the bound river method in RiverWrapper
(ixai/utils/validators/model.py).  For string predictions RiverWrapper._extend_dict pads the
one-hot output with a 0. entry for every label *the wrapper has seen so far*
(ixai/utils/wrappers/river.py, lines 38-42).  If an imputed instance makes the classifier
predict a label for the first time, every later call in the same explain_one - in particular
the last chain link, which re-evaluates the unperturbed instance - returns a dict with one more
key than the dict `model_loss` was computed from.  For any loss that looks at the whole
prediction dict (here: the multi-class Brier score averaged over the predicted labels, a pure,
order-independent function of (y, prediction)) the chain no longer telescopes to
marginal_loss - model_loss.

Exit code 1 = property violated (current behaviour), 0 = property holds.
"""
import random
import sys
import warnings

import numpy as np

warnings.filterwarnings("ignore")

from river.naive_bayes import GaussianNB            # noqa: E402
from ixai.explainer import IncrementalSage, IncrementalPFI  # noqa: E402
from ixai.storage import BatchStorage               # noqa: E402


def true_label(x):
    return 'A' if x['a'] < 0 else ('B' if x['a'] < 2 else 'C')


def brier(y_true, y_pred: dict):
    """mean over the labels of the prediction of (p_label - [label == y_true])^2 - order independent"""
    return sum((p - (1. if label == y_true else 0.)) ** 2 for label, p in y_pred.items()) / len(y_pred)


# a deterministic, already trained river classifier with string labels; it only reads feature 'a'
rng = random.Random(0)
model = GaussianNB()
for _ in range(600):
    x = {'a': rng.uniform(-3, 5), 'b': rng.uniform(-1, 1)}
    model.learn_one({'a': x['a']}, true_label(x))


# sanity: the classifier is deterministic and its predicted label never depends on feature 'b'
for a in (-2., -1., 1., 4.):
    assert len({model.predict_one({'a': a, 'b': b}) for b in (0.3, 0.1, -0.4, 0.2, 0.3)}) == 1
assert model.predict_one({'a': -1., 'b': 0.1}) == 'A' and model.predict_one({'a': 4., 'b': 0.3}) == 'C'

stream = [({'a': 4.0, 'b': 0.3}, 'C'),     # first observation: only seeds the storage (model not called)
          ({'a': -1.0, 'b': 0.1}, 'B'),    # predicted 'A'; imputing 'a' from the stored row yields 'C'
          ({'a': -2.0, 'b': -0.4}, 'A'),
          ({'a': 1.0, 'b': 0.2}, 'B')]

failures = []
for seed in range(4):
    random.seed(seed)
    np.random.seed(seed)
    # the documented way to explain a river model: pass the bound prediction method
    explainer = IncrementalSage(model_function=model.predict_one, loss_function=brier, feature_names=['a', 'b'],
                                storage=BatchStorage(store_targets=False), dynamic_setting=False,
                                n_inner_samples=1)
    for t, (x, y) in enumerate(stream):
        values = explainer.explain_one(dict(x), y)
        if t == 0:
            continue
        total, explained = sum(values.values()), explainer.explained_loss
        if abs(total - explained) > 1e-9:
            failures.append((seed, t, total, explained))
            break

# C02 flavour: feature 'b' is ignored by the model, yet gets a non-zero PFI value
random.seed(0)
np.random.seed(0)
pfi = IncrementalPFI(model_function=model.predict_one, loss_function=brier, feature_names=['a', 'b'],
                     storage=BatchStorage(store_targets=False), dynamic_setting=False, n_inner_samples=1)
pfi_b = None
for x, y in stream[:2]:
    pfi_b = pfi.explain_one(dict(x), y).get('b')

if failures or (pfi_b is not None and pfi_b != 0):
    for seed, t, total, explained in failures:
        print(f"seed {seed}, observation {t}: sum of SAGE values = {total!r} but explained loss "
              f"(marginal - model loss) = {explained!r}")
    print(f"PFI value of feature 'b', which the model never reads: {pfi_b!r} (expected exactly 0)")
    print("VIOLATED: C01/C03 efficiency (and C02 ignored-feature-is-zero) for a deterministic river classifier, "
          "because RiverWrapper pads its output with all labels seen so far, so the same instance gets a "
          "different prediction dict before and after an imputed instance revealed a new label.")
    sys.exit(1)
print("ok: efficiency holds")
sys.exit(0)

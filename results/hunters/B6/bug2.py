"""C01 / C03 (and C15 "accepts any loss with the documented signature"): IncrementalSage computes the
chain differences `sample_loss - feature_loss` in the loss's own NumPy scalar type
(ixai/explainer/sage/incremental.py, line 149), whereas the marginal-/model-loss trackers and
IncrementalPFI (np.mean -> float64) promote the very same values to float64.

 * a 0/1 loss encoded as np.uint8 (e.g. `(pred != y).astype(np.uint8)` on NumPy data): 0 - 1 wraps to 255,
   so the SAGE values silently stop summing to the explained loss (efficiency, C01) and are not the loss
   reductions along the chain (C03);
 * the same 0/1 loss as np.bool_ (what `np.argmax(...) != y` returns): NumPy refuses bool - bool, so
   IncrementalSage.explain_one raises TypeError although IncrementalPFI digests that loss.

Exit code 1 = property violated (current behaviour), 0 = property holds.
"""
import random
import sys
import warnings

import numpy as np

warnings.filterwarnings("ignore")
np.seterr(all="ignore")

from ixai.explainer import IncrementalSage, IncrementalPFI  # noqa: E402
from ixai.storage import BatchStorage                        # noqa: E402


def model(x):  # deterministic binary "classifier": predicted class id in the 'output' entry
    return {'output': 1.0 if x['a'] + x['b'] > 0 else 0.0}


def zero_one_uint8(y_true, y_pred):     # 0/1 loss as an unsigned NumPy scalar
    return np.uint8(y_pred['output'] != y_true)


def zero_one_bool(y_true, y_pred):      # 0/1 loss as a NumPy bool (result of comparing NumPy values)
    return np.float64(y_pred['output']) != np.int64(y_true)


def zero_one_python(y_true, y_pred):    # reference: the same loss as a plain Python int
    return int(y_pred['output'] != y_true)


def run(loss, explainer_class):
    random.seed(7)
    np.random.seed(7)
    rng = random.Random(11)
    explainer = explainer_class(model, loss, ['a', 'b'], storage=BatchStorage(store_targets=False),
                                dynamic_setting=False, n_inner_samples=1)
    worst = 0.
    for _ in range(30):
        x = {'a': rng.uniform(-1, 1), 'b': rng.uniform(-1, 1)}
        y = int(x['a'] > 0)
        values = explainer.explain_one(x, y)
        if values and isinstance(explainer, IncrementalSage):
            worst = max(worst, abs(sum(values.values()) - explainer.explained_loss))
    return explainer, worst


violations = []

reference, gap = run(zero_one_python, IncrementalSage)
assert gap < 1e-12, "sanity: with a Python int 0/1 loss efficiency holds"

explainer, gap = run(zero_one_uint8, IncrementalSage)
if gap > 1e-9:
    violations.append(
        f"np.uint8 0/1 loss: sum of SAGE values = {sum(explainer.importance_values.values())!r}, explained loss = "
        f"{explainer.explained_loss!r} (max gap over the stream {gap!r}); with the identical loss returned as a "
        f"Python int the values are {reference.importance_values!r}, here {explainer.importance_values!r}")

try:
    run(zero_one_bool, IncrementalPFI)          # PFI accepts the loss ...
except Exception as error:                      # pragma: no cover
    violations.append(f"np.bool_ 0/1 loss: IncrementalPFI raised {type(error).__name__}: {error}")
try:
    explainer, gap = run(zero_one_bool, IncrementalSage)   # ... SAGE does not
    if gap > 1e-9:
        violations.append(f"np.bool_ 0/1 loss: efficiency gap {gap!r}")
except TypeError as error:
    violations.append(f"np.bool_ 0/1 loss: IncrementalSage.explain_one raised TypeError: {error}")

if violations:
    for violation in violations:
        print(violation)
    print("VIOLATED: C01/C03 (the SAGE values are not the loss reductions and do not sum to the explained loss) "
          "for a loss that returns NumPy unsigned / bool scalars.")
    sys.exit(1)
print("ok")
sys.exit(0)

"""C18 violated: TreeImputer (default mode, and the fallback of use_storage=True) draws categorical values in the
iteration order of a *set* of category labels (river's HoeffdingAdaptiveTreeClassifier.classes).  For string categories
that order depends on PYTHONHASHSEED, so with `random` and `numpy.random` seeded identically the same stream gives
different imputed values and different importance values in different interpreter starts.

The parent process replays the identical, identically seeded stream in child interpreters that differ only in their
string-hash seed (what happens on every normal start, where the hash seed is random) and compares bit for bit.
exit 1 = property violated, exit 0 = reproducible.
"""
import os
import subprocess
import sys

HASH_SEEDS = ["0", "1", "2", "3"]


def child():
    import random
    import warnings
    import numpy as np
    warnings.filterwarnings("ignore")
    from ixai.storage import TreeStorage
    from ixai.imputer import TreeImputer
    from ixai.explainer import IncrementalPFI

    names = ['colour', 'shape', 'size']          # three categorical features, no numerical one

    def model(x):
        return {'output': 1.0 * (x['colour'] == 'red') + 0.5 * (x['shape'] == 'round') + 0.25 * (x['size'] == 'L')}

    def loss(y, p):
        return (y - p['output']) ** 2

    stream_rng = random.Random(1)                # the stream itself is fixed and independent of the global seeds
    stream = []
    for _ in range(300):
        z = stream_rng.random()
        x = {'colour': 'red' if z > .7 else stream_rng.choice(['red', 'green', 'blue', 'black']),
             'shape': 'round' if z > .5 else stream_rng.choice(['square', 'flat']),
             'size': stream_rng.choice(['S', 'M', 'L', 'XL'])}
        stream.append((x, model(x)['output'] + stream_rng.gauss(0, .1)))

    random.seed(5)
    np.random.seed(5)
    storage = TreeStorage(cat_feature_names=names, num_feature_names=[], grace_period=10, max_depth=3,
                          leaf_reservoir_length=3)
    imputer = TreeImputer(model, storage)        # defaults: use_storage=False
    explainer = IncrementalPFI(model, loss, names, storage=storage, imputer=imputer, n_inner_samples=2,
                               dynamic_setting=False)
    for x, y in stream:
        explainer.explain_one(x, y)

    # (a) the storage itself is reproducible ...
    contents = sorted((f, leaf, repr(res.get_data()[0])) for f in names
                      for leaf, res in storage.data_reservoirs[f].items())
    import hashlib
    print("storage   ", hashlib.md5(repr(contents).encode()).hexdigest())
    # (b) ... the importance values are not
    print("importance", [(f, float(v).hex()) for f, v in sorted(explainer.importance_values.items())])
    # (c) because the imputer draws from the categories in set order
    drawn = []
    probe = TreeImputer(lambda x: drawn.append(x['colour']) or {'output': 0.}, storage)
    random.seed(7)
    np.random.seed(7)
    probe.impute(['colour'], dict(stream[-1][0]), n_samples=12)
    print("drawn     ", drawn)


def main():
    outputs = {}
    for hash_seed in HASH_SEEDS:
        env = dict(os.environ, PYTHONHASHSEED=hash_seed)
        res = subprocess.run([sys.executable, os.path.abspath(__file__), "child"], env=env, capture_output=True,
                             text=True)
        if res.returncode != 0:
            print(res.stderr)
            sys.exit(2)
        outputs[hash_seed] = [line for line in res.stdout.splitlines()
                              if line.startswith(("storage", "importance", "drawn"))]
        print(f"--- PYTHONHASHSEED={hash_seed}")
        print("\n".join(outputs[hash_seed]))
    reference = outputs[HASH_SEEDS[0]]
    storage_same = all(out[0] == reference[0] for out in outputs.values())
    values_same = all(out[1:] == reference[1:] for out in outputs.values())
    print(f"\nstorage contents identical in all interpreter starts: {storage_same}")
    if not values_same:
        print("C18 VIOLATED: random/numpy seeded identically, same stream, same configuration - but the importance "
              "values and the values drawn by TreeImputer differ between interpreter starts (string-hash order of "
              "the category set).")
        sys.exit(1)
    print("reproducible")
    sys.exit(0)


if __name__ == "__main__":
    if len(sys.argv) > 1 and sys.argv[1] == "child":
        child()
    else:
        main()

"""C16 - normalisation is not well-formed for narrow NumPy scalar types: the normaliser (sum / max-min) is
accumulated in the values' own narrow type, so it wraps around (np.int8/np.uint8 ...), overflows to inf
(np.float16) or is not even defined (np.bool_ subtraction).

Run:  PYTHONPATH=/tmp/wt_B5 /venv/bin/python bug2.py
"""
import sys
import math
import warnings
warnings.filterwarnings("ignore")
import random
import numpy as np
from ixai.explainer import IncrementalPFI
from ixai.explainer.base import BaseIncrementalFeatureImportance as Base

normalize = Base._normalize_importance_values
failures = []


def check(title, values, mode):
    """The C16 contract, judged in exact arithmetic on the raw values."""
    try:
        result = normalize(dict(values), mode=mode)
    except Exception as error:  # noqa
        failures.append(f"{title} [{mode}]: raised {type(error).__name__}: {error}")
        return
    raw = {k: float(v) for k, v in values.items()}
    res = {k: float(v) for k, v in result.items()}
    true_factor = sum(raw.values()) if mode == 'sum' else max(raw.values()) - min(raw.values())
    if any(math.isnan(v) or math.isinf(v) for v in res.values()):
        failures.append(f"{title} [{mode}]: NaN/inf in {result}")
    elif true_factor == 0:
        if any(v != 0.0 for v in res.values()):
            failures.append(f"{title} [{mode}]: zero normaliser but {result}")
    else:
        got = sum(res.values()) if mode == 'sum' else max(res.values()) - min(res.values())
        if abs(got - 1.) > 1e-2:   # generous: float16 has ~3 significant digits
            what = "sum" if mode == 'sum' else "range"
            failures.append(f"{title} [{mode}]: true normaliser is {true_factor} (non-zero) but the normalised "
                            f"values {result} have {what} {got}, not 1")


# (a) direct: importance dictionaries of NumPy scalars (part of the C16 quantifier)
check("np.int8 {100, 100}", {'a': np.int8(100), 'b': np.int8(100)}, 'sum')
check("np.int8 {100, -100}", {'a': np.int8(100), 'b': np.int8(-100)}, 'delta')
check("np.int8 4 x 64 (wraps to exactly 0)", {k: np.int8(64) for k in 'abcd'}, 'sum')
check("np.uint8 {200, 100}", {'a': np.uint8(200), 'b': np.uint8(100)}, 'sum')
check("np.float16 {40000, 40000}", {'a': np.float16(40000), 'b': np.float16(40000)}, 'sum')
check("np.float16 {40000, -40000}", {'a': np.float16(40000), 'b': np.float16(-40000)}, 'delta')
check("np.bool_ {True, False}", {'a': np.True_, 'b': np.False_}, 'delta')


# (b) reachable by a stream: a loss that returns np.float16 keeps every tracker in float16
def model(x):
    if isinstance(x, dict):
        return {'output': 20000. * (x['a'] + x['b'])}
    return [model(x_i) for x_i in x]


def loss(y_true, y_pred):
    return np.float16(abs(y_true - y_pred['output']))


random.seed(0)
np.random.seed(0)
explainer = IncrementalPFI(model, loss, ['a', 'b'], smoothing_alpha=1., dynamic_setting=True)
explainer.explain_one({'a': 2., 'b': 2.}, 0.)     # seeds the storage
explainer.explain_one({'a': 0., 'b': 0.}, 0.)     # PFI contribution 40000 for each feature
raw = explainer.importance_values
norm = explainer.get_normalized_importance_values('sum')
if not abs(sum(float(v) for v in norm.values()) - 1.) < 1e-2:
    failures.append(f"stream with np.float16 losses: importance values {raw} are normalised to {norm} "
                    f"(sum {sum(norm.values())}, ratios lost)")

if failures:
    print("C16 VIOLATED:")
    for failure in failures:
        print("  ", failure)
    sys.exit(1)
print("ok")

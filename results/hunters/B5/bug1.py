"""C15 - first explain_one with update_storage=False leaves an empty background;
the next explain_one then dies inside the default imputer (ValueError from random.randrange(0))
instead of counting one seen sample and evaluating the model 1 + d*n_inner times.

Run:  PYTHONPATH=/tmp/wt_B5 /venv/bin/python bug1.py
"""
import sys
import warnings
warnings.filterwarnings("ignore")
import random
import numpy as np
from ixai.explainer import IncrementalPFI, IncrementalSage

NAMES = ['a', 'b']
calls = {'model': 0}


def model(x):
    if isinstance(x, dict):
        calls['model'] += 1
        return {'output': 2 * x['a'] + x['b']}
    return [model(x_i) for x_i in x]


def loss(y_true, y_pred):
    return (y_true - y_pred['output']) ** 2


failures = []
for cls in (IncrementalPFI, IncrementalSage):
    random.seed(0)
    np.random.seed(0)
    explainer = cls(model, loss, NAMES)          # required arguments only -> default storage + default imputer
    # call 1: legal flag value update_storage=False (element of the C15 product "update_storage flags x prefixes")
    explainer.explain_one({'a': 1., 'b': 2.}, 3., update_storage=False)
    assert explainer.seen_samples == 1
    calls['model'] = 0
    try:
        # call 2: must count one seen sample and evaluate the model 1 + d * n_inner = 3 times
        explainer.explain_one({'a': 0., 'b': 1.}, 1.)
    except Exception as error:  # noqa
        n_model = calls['model']
        # the storage is only updated after the imputation, so the explainer can never recover by itself
        still_dead = 0
        for _ in range(5):
            try:
                explainer.explain_one({'a': 0., 'b': 1.}, 1.)   # update_storage=True (default)
            except ValueError:
                still_dead += 1
        failures.append(f"{cls.__name__}: 2nd explain_one raised {type(error).__name__}: {error} "
                        f"after {n_model} model evaluation(s); seen_samples={explainer.seen_samples}; "
                        f"{still_dead}/5 further default explain_one calls raised too "
                        f"(storage length is still {len(explainer._storage)})")
        continue
    if calls['model'] != 3 or explainer.seen_samples != 2:
        failures.append(f"{cls.__name__}: model evaluated {calls['model']} times, seen={explainer.seen_samples}")

if failures:
    print("C15 VIOLATED:")
    for failure in failures:
        print("  ", failure)
    sys.exit(1)
print("ok")

"""C01 (efficiency) fails by a whole loss unit for float predictions + an exact 0/1 loss when
n_inner_samples is 3 (or 5, 6, 7, ...).

The last step of the SAGE chain imputes the EMPTY feature subset; the imputer then returns the
unperturbed prediction n times and the explainer averages these n identical dicts with
sum(...)/n.  In binary floating point (v+v+v)/3 != v for many v (0.1 -> 0.10000000000000002),
so the "full coalition" loss is evaluated at a prediction that differs from the one used for
model_loss.  A discontinuous loss (0/1 loss, tolerance-band hit rate, argmax accuracy) turns that
one-ulp difference into a difference of 1, and sum(SAGE values) != marginal_loss - model_loss.
"""
import sys
import random
import warnings

import numpy as np

warnings.simplefilter("ignore")
from ixai.explainer.sage import IncrementalSage  # noqa: E402
from ixai.storage import UniformReservoirStorage  # noqa: E402
from ixai.imputer import MarginalImputer  # noqa: E402
from ixai.utils.wrappers.base import Wrapper  # noqa: E402


class Model(Wrapper):
    """deterministic regression model, output form {'output': float}"""
    def __init__(self):
        pass

    def __call__(self, x):
        return {'output': x['a'] * x['b']}


def band_loss(y_true, y_pred):
    """0/1 'miss' loss: 0 when the prediction is within +-0.05 of the target, else 1 (exact ints)."""
    return 0 if abs(y_true - y_pred['output']) <= 0.05 else 1


def run(n_inner, dynamic):
    random.seed(7)
    np.random.seed(7)
    model = Model()
    storage = UniformReservoirStorage(size=20, store_targets=False)
    imputer = MarginalImputer(model, 'joint', storage)
    explainer = IncrementalSage(
        model_function=model, loss_function=band_loss, feature_names=['a', 'b'],
        storage=storage, imputer=imputer, n_inner_samples=n_inner,
        dynamic_setting=dynamic, smoothing_alpha=0.5)
    worst = 0.0
    for t in range(30):
        a = random.choice([0.1, 0.2, 0.3, 0.7])     # data on a 0.1 grid
        b = random.choice([1.0, 0.5])
        x = {'a': a, 'b': b}
        y = round(a * b + random.choice([-0.05, 0.0, 0.05]), 2)   # targets on a 0.05 grid
        explainer.explain_one(x, y)
        gap = abs(sum(explainer.importance_values.values()) - explainer.explained_loss)
        worst = max(worst, gap)
    return worst


failed = False
for dynamic in (False, True):
    for n_inner in (1, 2, 3, 4, 5):
        gap = run(n_inner, dynamic)
        print(f"dynamic={dynamic!s:5} n_inner_samples={n_inner}: "
              f"max |sum(SAGE) - explained_loss| = {gap:.6g}")
        if gap > 1e-9:
            failed = True
if failed:
    print("C01 VIOLATED: SAGE values do not sum to explained_loss (gap far above rounding) - the full-"
          "coalition loss is taken at mean(n copies of the prediction), which is not the prediction.")
    sys.exit(1)
print("ok")

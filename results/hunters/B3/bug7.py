"""C07 (borderline - needs a caller that re-uses / mutates its dict after handing it over):
every storage keeps a REFERENCE to the dict passed to update(); it never copies.  A stream that
re-uses one buffer dict (or a caller that post-processes x in place) therefore changes what is
"stored": the storage ends up holding an observation that never arrived, k times.
"""
import sys
import random

from ixai.storage import (BatchStorage, IntervalStorage, SequenceStorage, UniformReservoirStorage,
                          GeometricReservoirStorage)

random.seed(0)
failed = False
for storage in (BatchStorage(), IntervalStorage(size=3), SequenceStorage(), UniformReservoirStorage(size=3),
                GeometricReservoirStorage(size=3)):
    observed = []
    buffer = {}
    for t in range(3):
        buffer['a'] = t                  # the stream re-fills one buffer dict
        observed.append(dict(buffer))
        storage.update(buffer, t)
    buffer['a'] = 'never observed'       # caller goes on using its dict
    stored = [dict(x) for x in storage.get_data()[0]]
    bad = [x for x in stored if x not in observed]
    print(f"{type(storage).__name__:26} stored={stored}")
    failed |= bool(bad)
if failed:
    print("C07 (borderline): stored observations are not a sub-multiset of the observed ones - storages alias "
          "the caller's dict")
    sys.exit(1)
print("ok")

"""C05 analogue of bug1.py: BatchSage (both modes) and IntervalSage values do not sum to
mean_i[ loss(y_i, mean prediction) - loss(y_i, model(x_i)) ] for n_inner_samples=3, float predictions
and an exact 0/1 loss - the last chain step evaluates the loss at (p+p+p)/3 != p.
All features the model reads are explained, so the 'original' mode is inside the quantifier too.
"""
import sys
import random
import warnings

import numpy as np

warnings.simplefilter("ignore")
from ixai.explainer.sage import BatchSage, IntervalSage  # noqa: E402
from ixai.explainer.base import _get_mean_model_output  # noqa: E402
from ixai.utils.wrappers.base import Wrapper  # noqa: E402


class Model(Wrapper):
    def __init__(self):
        pass

    def __call__(self, x):
        if isinstance(x, dict):
            return {'output': x['a'] * x['b']}
        return [self(x_i) for x_i in x]


def band_loss(y_true, y_pred):
    return 0 if abs(y_true - y_pred['output']) <= 0.05 else 1


rng = random.Random(3)
data = []
for _ in range(40):
    a, b = rng.choice([0.1, 0.2, 0.3, 0.7]), rng.choice([1.0, 0.5])
    data.append(({'a': a, 'b': b}, round(a * b + rng.choice([-0.05, 0.0, 0.05]), 2)))
model = Model()
mean_pred = {'output': sum(model(x)['output'] for x, _ in data) / len(data)}
target = sum(band_loss(y, mean_pred) - band_loss(y, model(x)) for x, y in data) / len(data)

failed = False
for n_inner in (1, 2, 3, 4):
    for name in ('batch', 'batch-original', 'interval'):
        random.seed(1)
        np.random.seed(1)
        if name == 'interval':
            ex = IntervalSage(model, ['a', 'b'], band_loss, n_inner_samples=n_inner,
                              interval_length=len(data), storage_length=len(data))
            for x, y in data:
                values = ex.explain_one(x, y, verbose=False)
        else:
            ex = BatchSage(model, ['a', 'b'], band_loss, n_inner_samples=n_inner)
            for x, y in data:
                ex.update_storage(x, y)
            xs, ys = ex._storage.get_data()
            fn = ex.explain_many_original if name == 'batch-original' else ex.explain_many
            values = fn(xs, ys, verbose=False)
        gap = abs(sum(values.values()) - target)
        print(f"n_inner_samples={n_inner} {name:15}: sum={sum(values.values()):+.6f} expected={target:+.6f} gap={gap:.3g}")
        failed |= gap > 1e-9
if failed:
    print("C05 VIOLATED: batch/interval SAGE values do not sum to mean(loss(mean prediction) - loss(model prediction))")
    sys.exit(1)
print("ok")

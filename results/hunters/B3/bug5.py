"""C06 ("every feature subset (any iterable ...)", "every n_samples >= 1"): when the subset is a
one-shot iterable (generator expression, iter(...), filter(...)), MarginalImputer and TreeImputer
impute it only in the FIRST of the n_samples model evaluations; the remaining evaluations see the
explained instance unchanged.  DefaultImputer (iterates once) is fine.
"""
import sys
import random
import warnings

import numpy as np

warnings.simplefilter("ignore")
from ixai.imputer import MarginalImputer, TreeImputer, DefaultImputer  # noqa: E402
from ixai.storage import BatchStorage, TreeStorage  # noqa: E402
from ixai.utils.wrappers.base import Wrapper  # noqa: E402

calls = []


class Model(Wrapper):
    def __init__(self):
        pass

    def __call__(self, x):
        calls.append(dict(x))
        return {'output': 0.0}


random.seed(0)
np.random.seed(0)
model = Model()
batch, tree = BatchStorage(), TreeStorage(cat_feature_names=[], num_feature_names=['a', 'b'])
for t in range(30):
    x = {'a': 100.0 + t, 'b': 200.0 + t}       # background values are far away from the instance
    batch.update(x, 0)
    tree.update(x)
instance = {'a': 0.0, 'b': 0.0}
names = ['a', 'b']
failed = False
for label, imputer in (('DefaultImputer', DefaultImputer(model, {'a': 100.0, 'b': 200.0})),
                       ('MarginalImputer/joint', MarginalImputer(model, 'joint', batch)),
                       ('MarginalImputer/product', MarginalImputer(model, 'product', batch)),
                       ('TreeImputer/storage', TreeImputer(model, tree, use_storage=True))):
    calls.clear()
    out = imputer.impute((f for f in names if f != 'b'), instance, n_samples=3)   # subset {'a'} as a generator
    not_imputed = [i for i, c in enumerate(calls) if c['a'] == instance['a']]
    print(f"{label:24} returned {len(out)} predictions, model inputs: {calls}")
    if label != 'DefaultImputer' and (len(calls) != 3 or not_imputed):
        print(f"   -> evaluations {not_imputed} left feature 'a' at the instance's own value")
        failed = True
if failed:
    print("C06 VIOLATED: requested feature not taken from the background in every evaluation")
    sys.exit(1)
print("ok")

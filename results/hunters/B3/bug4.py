"""C06: MarginalImputer('joint') raises for the EMPTY feature subset when the storage is empty,
although no background value is needed; the 'product' strategy returns the unperturbed prediction.
Reachable through IncrementalSage with one feature (the only chain step imputes the empty subset).
"""
import sys
import random
import warnings

warnings.simplefilter("ignore")
from ixai.imputer import MarginalImputer  # noqa: E402
from ixai.storage import UniformReservoirStorage, IntervalStorage  # noqa: E402
from ixai.explainer.sage import IncrementalSage  # noqa: E402
from ixai.utils.wrappers.base import Wrapper  # noqa: E402


class Model(Wrapper):
    def __init__(self):
        pass

    def __call__(self, x):
        return {'output': 2 * x['a']}


random.seed(0)
model, x = Model(), {'a': 1.5}
failed = False
for storage in (UniformReservoirStorage(size=3), IntervalStorage(size=3)):
    for strategy in ('product', 'joint'):
        imputer = MarginalImputer(model, strategy, storage)
        try:
            out = imputer.impute([], x, n_samples=2)
            ok = out == [model(x)] * 2
            print(type(storage).__name__, strategy, '->', out)
        except Exception as error:  # noqa
            ok = False
            print(type(storage).__name__, strategy, '-> raised', repr(error))
        failed |= not ok

# the same through an explainer: d = 1, first observation explained with update_storage=False
for strategy in ('product', 'joint'):
    storage = UniformReservoirStorage(size=3)
    ex = IncrementalSage(model, lambda y, p: (y - p['output']) ** 2, ['a'], storage=storage,
                         imputer=MarginalImputer(model, strategy, storage), dynamic_setting=False)
    try:
        ex.explain_one({'a': 1.0}, 2.0, update_storage=False)
        ex.explain_one({'a': 2.0}, 3.0, update_storage=False)
        print('IncrementalSage d=1', strategy, '->', ex.importance_values, 'explained', ex.explained_loss)
    except Exception as error:  # noqa
        print('IncrementalSage d=1', strategy, '-> raised', repr(error))
        failed = True
if failed:
    print("C06 VIOLATED: empty subset must give the unperturbed prediction n_samples times for every storage content")
    sys.exit(1)
print("ok")

"""C09 (pedantic, probability 2**-53 per update): GeometricReservoirStorage admits an observation when
random.random() <= p.  random.random() returns values in [0, 1) INCLUDING 0.0, so the entry probability
is p + 2**-53 instead of p, and a reservoir configured with p = 0 ("never replace") can still replace.
Shown with a scripted generator that returns the legal outcome 0.0.
"""
import sys
from unittest import mock

from ixai.storage import GeometricReservoirStorage

storage = GeometricReservoirStorage(size=2, constant_probability=0.0, store_targets=True)
storage.update({'t': 1}, 1)
storage.update({'t': 2}, 2)
with mock.patch('ixai.storage.geometric_reservoir_storage.random.random', return_value=0.0):
    storage.update({'t': 3}, 3)          # p = 0: must never enter
xs, ys = storage.get_data()
print("stored after 3 updates with p=0 and random()==0.0:", xs, ys)
if {'t': 3} in xs:
    print("C09 VIOLATED: with p = 0 a new observation entered the full reservoir (`<=` instead of `<`)")
    sys.exit(1)
print("ok")

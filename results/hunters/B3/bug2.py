"""C01 (efficiency) fails in the DEFAULT configuration (n_inner_samples=1) for a classifier whose
probability dict contains an exact tie and an argmax 0/1 loss.

Same root cause as bug1.py: the loss of the full coalition (last chain step, empty feature subset)
is not taken at the model's prediction but at _get_mean_model_output([prediction]*n), which rebuilds
the dict from a *set* of labels and thereby changes the key order.  An argmax loss written the way
river itself picks a label (max(p, key=p.get): first key wins a tie) then sees another predicted
class than it saw for model_loss, although both dicts compare equal.
"""
import sys
import random
import warnings

import numpy as np

warnings.simplefilter("ignore")
from ixai.explainer.sage import IncrementalSage  # noqa: E402
from ixai.utils.wrappers.base import Wrapper  # noqa: E402


class Classifier(Wrapper):
    """deterministic binary 'predict_proba_one': undecided (0.5/0.5) for a < 2"""
    def __init__(self):
        pass

    def __call__(self, x):
        p = 0.5 if x['a'] < 2 else 0.75
        return {1: p, 0: 1 - p}           # label 1 is listed first


def error_rate(y_true, y_pred):
    return int(max(y_pred, key=y_pred.get) != y_true)


random.seed(0)
np.random.seed(0)
explainer = IncrementalSage(Classifier(), error_rate, ['a', 'b'], dynamic_setting=False)  # all defaults
worst = 0.0
for t in range(50):
    x = {'a': random.choice([0, 1, 2, 3]), 'b': random.random()}
    explainer.explain_one(x, 1)
    worst = max(worst, abs(sum(explainer.importance_values.values()) - explainer.explained_loss))
print("sum(SAGE) =", sum(explainer.importance_values.values()),
      " explained_loss =", explainer.explained_loss, " max gap =", worst)
if worst > 1e-9:
    print("C01 VIOLATED with n_inner_samples=1: full-coalition loss is evaluated on a re-ordered copy of "
          "the prediction dict")
    sys.exit(1)
print("ok")

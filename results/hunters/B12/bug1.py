"""C13 violated: one loss call whose metric.get() raises leaves the pair inside the shared river metric for ever.

RiverMetricToLossFunction.__call__ does  update -> get -> revert  without try/finally.  river.metrics.MultiFBeta
(accepted by validate_loss_function) raises KeyError from get() - not from update() - for a class that has no
beta/weight, exactly as a fresh MultiFBeta does.  After that single failing call the observation is never reverted:
every later call - with perfectly ordinary pairs, from ANY explainer sharing the metric object - no longer returns the
value a fresh metric reports for that pair (it raises KeyError instead), and the metric's own reported value changed.

exit 1 = property violated, exit 0 = holds.
"""
import sys
import random
import warnings

warnings.filterwarnings('ignore')
import numpy as np
from river import metrics

from ixai.explainer import IncrementalPFI
from ixai.utils.validators import validate_loss_function

CLASSES = [0, 1, 2]


def new_metric():
    return metrics.MultiFBeta(betas={c: 1. for c in CLASSES}, weights={c: 1. for c in CLASSES})


def fresh_value(y_true, y_pred):
    metric = new_metric()
    metric.update(y_true=y_true, y_pred=y_pred)
    return -metric.get()  # bigger-is-better metric -> negated


problems = []

# ---- part 1: the loss function on its own --------------------------------------------------------------------------
metric = new_metric()
loss = validate_loss_function(metric)           # accepted
reported_before = metric.get()
pair = (1, {'output': 1})
first = loss(*pair)
assert first == fresh_value(1, 1)
try:
    loss(3, {'output': 1})                      # class 3 has no beta: KeyError, as for a fresh metric
except KeyError:
    pass
try:
    second = loss(*pair)                        # same pair as before
    if second != first:
        problems.append(f"loss{pair} was {first!r}, after one failed call it is {second!r}")
except KeyError as error:
    problems.append(f"loss{pair} returned {first!r} (= fresh metric) before, but raises KeyError({error}) after one "
                    f"failed call with another pair")
try:
    reported_after = metric.get()
    if reported_after != reported_before:
        problems.append(f"metric.get() changed from {reported_before!r} to {reported_after!r}")
except KeyError as error:
    problems.append(f"metric.get() was {reported_before!r}, now raises KeyError({error}); the metric still holds "
                    f"{metric.cm.n_samples} observation(s) although the caller never updated it")

# ---- part 2: two explainers sharing the metric object ---------------------------------------------------------------
random.seed(1)
np.random.seed(1)
shared = new_metric()


def model(x):
    return {'output': CLASSES[int(x['a'] + x['b']) % 3]}


explainer_a = IncrementalPFI(model, shared, ['a', 'b'])
explainer_b = IncrementalPFI(model, shared, ['a', 'b'])
rng = random.Random(3)
failed_a, failed_b = [], []
for t in range(12):
    x = {'a': rng.randint(0, 5), 'b': rng.randint(0, 5)}
    y_a = 3 if t == 5 else rng.choice(CLASSES)   # stream A: a single observation of an unconfigured class at t = 5
    y_b = rng.choice(CLASSES)                    # stream B: configured classes only
    try:
        explainer_a.explain_one(x, y_a)
    except KeyError:
        failed_a.append(t)                       # caller skips the observation and continues the stream
    try:
        explainer_b.explain_one(x, y_b)
    except KeyError:
        failed_b.append(t)
if failed_a != [5] or failed_b:
    problems.append(f"stream A has one unconfigured label at t=5; explainer A failed at t={failed_a}, explainer B "
                    f"(never saw that label, only shares the metric) failed at t={failed_b}")

if problems:
    print("C13 violated:")
    for problem in problems:
        print(" -", problem)
    sys.exit(1)
print("C13 holds")
sys.exit(0)

"""C16 (and, as a side effect, C01/C15): smoothing_alpha = 1 given as a narrow NumPy integer.

alpha = 1 is the closed end of the documented range ]0, 1] and passes the constructor's range check
whatever numeric type it has.  The explainer keeps the caller's object and later mixes it with its own
unbounded Python-int counters / Python-number contributions:

 (a) get_confidence_bound computes (1 - alpha) ** seen_samples.  With alpha = np.int8(1) the base is an
     np.int8 and NumPy refuses the Python-int exponent as soon as it leaves the int8 range:
     OverflowError from the 128th observation on (256th for np.uint8) - the bound is no longer
     "the positive finite number (1-alpha)^t + ..." for every state reachable by a stream.
 (b) ExponentialSmoothingTracker.update computes alpha * value.  With alpha = np.uint8(1) and an
     integer-valued loss (0/1 loss) the first negative SAGE contribution raises OverflowError in the
     middle of the tracker updates of explain_one: model loss and marginal loss were already
     updated, the importance tracker is left half-initialised (its key bookkeeping is incomplete), and
     every later explain_one call raises as well: the explainer is unusable from the 2nd observation on.
Exit code 1 = property violated.
"""
import warnings
warnings.simplefilter("ignore")
import random
import numpy as np
from ixai.explainer import IncrementalPFI, IncrementalSage


def model(x):
    return {'output': 1 if x['a'] + x['b'] > 1.0 else 0}


def zero_one_loss(y, pred):       # documented signature loss(y_true, y_pred_dict); exact integer values
    return int(y != round(pred['output']))


def sq_loss(y, pred):
    return (y - pred['output']) ** 2


def stream(n, seed=0):
    r = random.Random(seed)
    for _ in range(n):
        x = {'a': r.random(), 'b': r.random()}
        yield x, (1 if x['a'] + 0.8 * x['b'] > 0.9 else 0)


bad = []

# (a) confidence bound
for alpha in (np.int8(1), np.uint8(1), 1, 1.0, np.int64(1)):
    random.seed(1); np.random.seed(1)
    e = IncrementalPFI(model, sq_loss, ['a', 'b'], smoothing_alpha=alpha, dynamic_setting=True)
    for t, (x, y) in enumerate(stream(300), start=1):
        e.explain_one(x, y)
        try:
            cb = e.get_confidence_bound(delta=0.1)
        except OverflowError as err:
            bad.append(f"(a) alpha={alpha!r}: get_confidence_bound raised after {t} observations: {err}")
            break

# (b) explain_one itself, partial update
for alpha in (np.uint8(1), 1):
    random.seed(1); np.random.seed(1)
    e = IncrementalSage(model, zero_one_loss, ['a', 'b'], smoothing_alpha=alpha, dynamic_setting=True)
    n_raised, first, worst = 0, None, 0
    for t, (x, y) in enumerate(stream(300), start=1):
        try:
            e.explain_one(x, y)
        except (OverflowError, KeyError) as err:   # KeyError: follow-up damage of the half-finished tracker update
            n_raised += 1
            first = first or f"first at observation {t}: {type(err).__name__}: {err}"
    if n_raised:
        bad.append(f"(b) alpha={alpha!r}: explain_one raised in {n_raised} of 300 calls ({first}); "
                   f"importance_values afterwards = {e.importance_values}")

for line in bad:
    print(line)
if bad:
    print("VIOLATED: smoothing_alpha = 1 as a narrow NumPy integer breaks the confidence bound / explain_one, "
          "while the equal Python / int64 / float value works")
    raise SystemExit(1)
print("ok")

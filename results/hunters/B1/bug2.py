"""bug2 - C16 / C15: before the first *explained* observation (i.e. after 0 or 1 explain_one calls,
both of which are explainer states 'reachable by a stream' / 'stream prefixes') IncrementalPFI and
IncrementalSage have no per-feature estimates at all:

  * importance_values / the dict returned by explain_one is {} instead of being keyed by exactly
    the feature names (C15: '... reporting importance values keyed by exactly those names',
    quantified over '... x stream prefixes');
  * get_confidence_bound(delta) raises KeyError instead of returning the positive finite number
    (1-alpha)^t + sqrt(variance*alpha/((2-alpha)*delta)) (= (1-alpha)^t, the variance of an
    estimate that has not moved yet being 0)  (C16: '... for every explainer state reachable by a
    stream');
  * get_normalized_importance_values('delta') raises ValueError (max() of an empty sequence),
    whereas mode 'sum' returns {} (C16: 'when the normaliser is zero they are all 0.0').

BatchSage / IntervalSage, by contrast, report {name: 0.0} from the start.
Exit status 1 = violated on the unmodified code, 0 = holds.
"""
import sys
import math
import warnings

warnings.filterwarnings('ignore')
from ixai.explainer import IncrementalPFI, IncrementalSage   # noqa: E402

NAMES = ['a', 2, 0.5]


def model(x):
    return {'output': x['a'] + 2 * x[2] - x[0.5]}


def loss(y_true, y_pred):
    return (y_true - y_pred['output']) ** 2


problems = []
for cls in (IncrementalPFI, IncrementalSage):
    for dynamic in (True, False):
        explainer = cls(model, loss, NAMES, dynamic_setting=dynamic, smoothing_alpha=0.1)
        for n_calls in (0, 1):
            if n_calls == 1:
                returned = explainer.explain_one({'a': 1., 2: 2., 0.5: 3.}, 1.)
                if set(returned) != set(NAMES):
                    problems.append(f"{cls.__name__}(dynamic={dynamic}) explain_one #1 returned "
                                    f"{returned!r}, not a dict keyed by {NAMES}")
            where = f"{cls.__name__}(dynamic={dynamic}) after {n_calls} call(s)"
            if set(explainer.importance_values) != set(NAMES):
                problems.append(f"{where}: importance_values == {explainer.importance_values!r}")
            try:
                bound = explainer.get_confidence_bound(delta=0.05)
                expected = (1 - 0.1) ** n_calls
                for name in NAMES:
                    if not (math.isfinite(bound[name]) and bound[name] > 0
                            and abs(bound[name] - expected) < 1e-12):
                        problems.append(f"{where}: confidence bound {bound!r}")
            except Exception as error:   # noqa
                problems.append(f"{where}: get_confidence_bound raised {error!r}")
            for mode in ('sum', 'delta'):
                try:
                    normalised = explainer.get_normalized_importance_values(mode)
                    if normalised != {name: 0.0 for name in NAMES}:
                        problems.append(f"{where}: normalised[{mode}] == {normalised!r}")
                except Exception as error:   # noqa
                    problems.append(f"{where}: get_normalized_importance_values({mode!r}) "
                                    f"raised {error!r}")

for problem in problems:
    print(problem)
if problems:
    print(f"VIOLATION of C15/C16: {len(problems)} findings - the estimates do not exist before the "
          f"second explain_one call (MultiValueTracker creates a key on its first update only).")
    sys.exit(1)
print('ok')
sys.exit(0)

"""bug3 - C01 (efficiency) fails by a whole unit, not by rounding, for n_inner_samples >= 3.

C01: 'After every explain_one call, the incremental SAGE importance values sum to the explainer's
own explained loss (marginal loss minus model loss): exactly when losses are exact numbers ...
This holds whatever the model, loss, imputer, storage, number of features, number of inner samples
...'  [every deterministic model and loss (loss values treated as arbitrary reals), n_inner >= 1]

Mechanism: the chain telescopes to  marginal_loss - loss(y, mean of the n_inner outputs for the
EMPTY subset), while explained_loss uses  model_loss = loss(y, model(x)).  The n_inner outputs for
the empty subset are n identical copies of model(x), but _get_mean_model_output computes
sum([p]*n)/n, which is not bit-identical to p for n >= 3 (e.g. sum([0.7]*3)/3 ==
0.6999999999999998; it differs for ~16 % of all doubles with n = 3).  Any loss with a decision
threshold (0-1 loss, accuracy, ...) turns this into different loss values for the same prediction.

Here the loss values are exact numbers (Fraction 0 / 1), the model is a constant, and the identity
is off by exactly 1.   Exit status 1 = violated on the unmodified code, 0 = holds.
"""
import sys
import random
import warnings
from fractions import Fraction

import numpy as np

warnings.filterwarnings('ignore')
from ixai.explainer import IncrementalSage          # noqa: E402
from ixai.storage import BatchStorage                # noqa: E402
from ixai.imputer import MarginalImputer             # noqa: E402

random.seed(0)
np.random.seed(0)


def model(x):
    return {'output': 0.7}                 # deterministic (even constant) model


def loss(y_true, y_pred):
    """exact 0-1 loss of the decision 'output >= 0.7'; signature loss(y_true, y_pred_dict)"""
    return Fraction(0) if (y_pred['output'] >= 0.7) == y_true else Fraction(1)


failures = []
for dynamic, alpha in ((False, None), (True, Fraction(1, 4))):
    storage = BatchStorage()
    explainer = IncrementalSage(model, loss, ['a', 'b'], storage=storage,
                                imputer=MarginalImputer(model, 'joint', storage),
                                dynamic_setting=dynamic, smoothing_alpha=alpha, n_inner_samples=3)
    for t in range(5):
        explainer.explain_one({'a': t, 'b': -t}, True)
        total = sum(explainer.importance_values.values())
        if t >= 1 and total != explainer.explained_loss:
            failures.append((dynamic, t, total, explainer.explained_loss))

print('mean of three identical outputs 0.7 :', repr(sum([0.7] * 3) / 3))
for dynamic, t, total, explained in failures:
    print(f'dynamic={dynamic} after call {t + 1}: sum of SAGE values = {total},  '
          f'explained_loss = {explained}  (marginal - model)')
if failures:
    print('VIOLATION of C01: all loss values are exact (Fraction 0/1) and the model is constant, '
          'yet the SAGE values do not sum to the explained loss.')
    sys.exit(1)
print('ok')
sys.exit(0)

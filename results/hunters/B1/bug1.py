"""bug1 - C03: in STATIC mode the marginal prediction of IncrementalSage is not the uniform running
mean of the model outputs once a label shows up for the first time after the first explained
observation (the quantifier of C03 explicitly contains 'label sets that grow over time').

C03: '... the loss before the first feature is that of the normalised running mean prediction.
Importance values, variances, marginal loss, model loss and the marginal prediction are the
configured running statistics (uniform mean or exponential smoothing) of these per-observation
quantities ...'

Everything is done in exact arithmetic (fractions.Fraction), so there is no tolerance involved.
Exit status 1 = property violated on the unmodified code, 0 = holds.
"""
import sys
import random
import warnings
from fractions import Fraction

import numpy as np

warnings.filterwarnings('ignore')
from ixai.explainer import IncrementalSage, BatchSage   # noqa: E402
from ixai.storage import BatchStorage                    # noqa: E402
from ixai.imputer import MarginalImputer                 # noqa: E402

random.seed(1)
np.random.seed(1)

ONE, ZERO = Fraction(1), Fraction(0)


def model(x):
    """Deterministic 'predict_proba'.  Class 'b' is absent from the output until an instance with
    f == 1 is seen - exactly what river classifiers do (a class is not in the dict returned by
    predict_proba_one before it was observed)."""
    if isinstance(x, list):                     # BatchSage calls the model with the whole data set
        return [model(x_i) for x_i in x]
    if x['f'] == 1:
        return {'a': ZERO, 'b': ONE}
    return {'a': ONE}


def loss(y_true, y_pred):
    """exact Brier-type loss with the documented signature loss(y_true, y_pred_dict)"""
    labels = set(y_pred) | {y_true}
    return sum((Fraction(int(lab == y_true)) - y_pred.get(lab, 0)) ** 2 for lab in labels)


storage = BatchStorage(store_targets=False)
imputer = MarginalImputer(model, 'joint', storage)
explainer = IncrementalSage(model, loss, ['f', 'g'], storage=storage, imputer=imputer,
                            dynamic_setting=False, n_inner_samples=1)

stream = [({'f': 0, 'g': 0}, 'a')] * 5 + [({'f': 1, 'g': 0}, 'b')]
for x, y in stream:
    explainer.explain_one(dict(x), y)

# ---- independent reference ------------------------------------------------------------------
# the first observation only seeds the storage; explained observations are stream[1:]
explained = stream[1:]
outputs = [model(x) for x, _ in explained]


def normalised_running_mean(outs):
    """uniform mean over the explained observations; a label that is absent from an output counts
    as 0 (as in ixai's own _get_mean_model_output and in MultiValueTracker.update for labels that
    disappear); dicts with more than one label are divided by their sum"""
    labels = {lab for out in outs for lab in out}
    mean = {lab: sum(out.get(lab, 0) for out in outs) / len(outs) for lab in labels}
    if len(mean) > 1:
        total = sum(mean.values())
        mean = {lab: value / total for lab, value in mean.items()}
    return mean


ref_prediction = normalised_running_mean(outputs)
ref_marginal_losses = [loss(explained[k][1], normalised_running_mean(outputs[:k + 1]))
                       for k in range(len(explained))]
ref_marginal_loss = sum(ref_marginal_losses) / len(ref_marginal_losses)

# what the library's own batch explainer uses as the mean prediction of the same 5 observations
batch = BatchSage(model, ['f', 'g'], loss)
batch_all = batch._model_function([x for x, _ in explained])
from ixai.explainer.base import _get_mean_model_output  # noqa: E402
batch_marginal = _get_mean_model_output(batch_all)

print('explained model outputs        :', outputs)
print('reference marginal prediction  :', dict(sorted(ref_prediction.items())))
print('BatchSage mean prediction      :', dict(sorted(batch_marginal.items())))
print('IncrementalSage (static) gives :', dict(sorted(explainer.marginal_prediction.items())))
print('reference marginal loss        :', ref_marginal_loss)
print('IncrementalSage marginal_loss  :', explainer.marginal_loss)
print('sum of SAGE values             :', sum(explainer.importance_values.values()),
      '(= explained_loss %s, efficiency itself is intact)' % explainer.explained_loss)

if explainer.marginal_prediction != ref_prediction or explainer.marginal_loss != ref_marginal_loss:
    print("VIOLATION of C03: label 'b' first appears at the 5th explained observation; its "
          "WelfordTracker is created with N = 0 at that moment, so 'b' is averaged over 1 "
          "observation (mean 1) while 'a' is averaged over 5 (mean 4/5).  The marginal prediction "
          "is therefore {a: 4/9, b: 5/9} instead of the running mean {a: 4/5, b: 1/5}; the "
          "marginal loss and hence the SAGE values are computed from a wrong baseline.")
    sys.exit(1)
print('ok')
sys.exit(0)

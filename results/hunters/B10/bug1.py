"""C05 (interval schedule) - IntervalSage with interval_length given as a narrow NumPy integer.

`IntervalSage.explain_one` decides whether to recompute with
    self.seen_samples % self.interval_length
where seen_samples is a Python int and interval_length is kept exactly as passed.  Under NumPy 2 (NEP 50) the Python int
is converted to the NumPy operand's type, so as soon as the call ordinal no longer fits that type (call 256 for np.uint8,
128 for np.int8, 32768 for np.int16) the expression raises OverflowError - on that call and on every later one, after
the storage has already been updated and the call been counted.  With the same value as a Python int (or np.int64) the
schedule is followed.  C05 claims the schedule "for every ... interval_length ... any interleaving of forced and
unforced calls"; a NumPy integer (e.g. taken from an array of settings) is a legal integer count.
"""
import random
import sys
import warnings

warnings.filterwarnings("ignore")
import numpy as np

from ixai.explainer.sage import IntervalSage
from ixai.utils.wrappers.base import Wrapper


class Model(Wrapper):
    def __init__(self):
        super().__init__(None, None)
        self.calls = 0

    def one(self, x):
        self.calls += 1
        return {'output': x['a'] + 2 * x['b']}

    def __call__(self, x):
        return self.one(x) if isinstance(x, dict) else [self.one(e) for e in x]


def loss(y_true, y_pred):
    return (y_true - y_pred['output']) ** 2


def run(interval_length, n_calls=300):
    """Returns (ordinals on which the values were recomputed, first failing ordinal + error)"""
    random.seed(0), np.random.seed(0)
    model = Model()
    explainer = IntervalSage(model_function=model, feature_names=['a', 'b'], loss_function=loss,
                             interval_length=interval_length, storage_length=5)
    rng = random.Random(1)
    recomputed = []
    for ordinal in range(1, n_calls + 1):
        x, y = {'a': rng.random(), 'b': rng.random()}, rng.random()
        before = model.calls
        try:
            explainer.explain_one(x, y, verbose=False)
        except Exception as error:  # noqa
            return recomputed, (ordinal, repr(error), explainer.seen_samples, len(explainer._storage))
        if model.calls != before:
            recomputed.append(ordinal)
    return recomputed, None


reference, failure = run(100)  # Python int
assert failure is None and reference == [100, 200, 300], (reference, failure)
problems = []
long_reference, failure = run(10000, n_calls=33000)
assert failure is None and long_reference == [10000, 20000, 30000], (long_reference, failure)
for narrow, n_calls, expected in ((np.int64(100), 300, reference), (np.uint8(100), 300, reference),
                                  (np.int8(100), 300, reference), (np.int16(10000), 33000, long_reference)):
    recomputed, failure = run(narrow, n_calls=n_calls)
    if failure is not None or recomputed != expected:
        problems.append(f"interval_length={narrow!r}: recomputed on calls {recomputed}, then call #{failure[0]} raised "
                        f"{failure[1]} (seen_samples={failure[2]}, storage length={failure[3]} - the call was counted "
                        f"and stored before it failed)")
if problems:
    print("C05 VIOLATED: the interval schedule is not followed for NumPy-integer interval lengths "
          "(Python int 100 recomputes on calls [100, 200, 300])")
    print("\n".join(problems))
    sys.exit(1)
print("ok")

"""C05 (efficiency, BatchSage original mode) - n_inner_samples given as a NumPy integer at the top of its type's range.

`BatchSage.explain_many_original` loops `for _ in range(1, n_inner_samples + 1)`.  For n_inner_samples = np.uint8(255)
(or np.int8(127)) the `+ 1` is carried out in the NumPy type and wraps around to 0 (-128): the range is empty, the model
is never evaluated on any coalition, and every chain link is scored on the "mean" of zero predictions, the empty dict.
A river metric used as loss reads a missing 'output' as 0, so nothing fails - the values are silently wrong: their sum is
loss(mean prediction) - loss(prediction 0) instead of loss(mean prediction) - loss(model's own prediction).
The non-original mode (`range(n_samples)` in the imputer) and a Python int 255 give the right result.
"""
import random
import sys
import warnings

warnings.filterwarnings("ignore")
import numpy as np
from river.metrics import MSE

from ixai.explainer.sage import BatchSage
from ixai.utils.wrappers.base import Wrapper


class Model(Wrapper):
    def __init__(self):
        super().__init__(None, None)
        self.calls = 0

    def one(self, x):
        self.calls += 1
        return {'output': 1 + x['a'] + 2 * x['b']}

    def __call__(self, x):
        return self.one(x) if isinstance(x, dict) else [self.one(e) for e in x]


rng = random.Random(1)
x_data = [{'a': rng.random(), 'b': rng.random()} for _ in range(6)]
y_data = [1 + x['a'] + 2 * x['b'] + 0.1 * rng.random() for x in x_data]


def run(n_inner_samples, original):
    random.seed(0), np.random.seed(0)
    model = Model()
    explainer = BatchSage(model_function=model, feature_names=['a', 'b'], loss_function=MSE())
    for x, y in zip(x_data, y_data):
        explainer.update_storage(x, y)
    if original:
        values = explainer.explain_many_original(x_data, y_data, n_inner_samples=n_inner_samples, verbose=False)
    else:
        values = explainer.explain_many(x_data, y_data, n_inner_samples=n_inner_samples, verbose=False)
    return sum(values.values()), model.calls


predictions = [1 + x['a'] + 2 * x['b'] for x in x_data]
mean_prediction = sum(predictions) / len(predictions)
explained = sum((y - mean_prediction) ** 2 - (y - p) ** 2 for y, p in zip(y_data, predictions)) / len(x_data)

problems = []
for n_inner in (255, np.int64(255), np.uint8(255), np.int8(127)):
    for original in (False, True):
        total, calls = run(n_inner, original)
        expected_calls = len(x_data) + len(x_data) * 2 * int(n_inner)
        if abs(total - explained) > 1e-9 or calls != expected_calls:
            problems.append(f"n_inner_samples={n_inner!r}, original_sage={original}: values sum to {total!r}, explained "
                            f"loss is {explained!r}; model evaluated {calls} times instead of {expected_calls}")
if problems:
    print("C05 VIOLATED: BatchSage values do not sum to the explained loss")
    print("\n".join(problems))
    sys.exit(1)
print("ok")

"""C02 (and C16's bound formula): IncrementalPFI with smoothing_alpha given as a narrow NumPy float.

ExponentialSmoothingTracker.update computes  (1 - self.alpha) * tracked + self.alpha * value.
With alpha = np.float32(...) / np.float16(...) the decay factor `1 - self.alpha` is evaluated in the
NARROW type (NumPy 2 / NEP 50: the Python int 1 is "weak") and is therefore rounded to 24 / 11 bits, whereas
`self.alpha * value` (value is a np.float64) is evaluated in double precision with the exact alpha.
The two weights no longer add up to one, so the tracked value is NOT the exponential smoothing with the
configured alpha: a stream whose every PFI contribution is exactly 1.0 yields an importance > 1.0.

Stream: one feature 'a', model(x) = x['a'], squared error, DefaultImputer value 0, every observation is
({'a': 1.0}, y = 1.0)  =>  original loss 0, imputed loss 1  => contribution exactly 1.0 at every step.
Exponential smoothing started at zero of the constant 1.0 is 1 - (1-alpha)^N  <= 1.0 for every alpha in (0,1].
"""
import sys
import warnings
warnings.filterwarnings("ignore")
import numpy as np
from ixai.explainer import IncrementalPFI
from ixai.imputer import DefaultImputer


def model(x):
    return {'output': x['a']}


def loss(y, p):
    return (y - p['output']) ** 2


def run(alpha, steps=20000):
    ex = IncrementalPFI(model, loss, ['a'], imputer=DefaultImputer(model, {'a': 0.0}),
                        smoothing_alpha=alpha, dynamic_setting=True)
    a = float(alpha)            # the configured alpha as an exact real number
    ref = 0.0
    for t in range(steps + 1):
        ex.explain_one({'a': 1.0}, 1.0)
        if t >= 1:              # the first observation only seeds the storage
            ref = (1 - a) * ref + a * 1.0
    return float(ex.importance_values['a']), ref


failures = []
for alpha in (np.float32(0.001), np.float32(0.01), np.float16(0.001), np.float16(0.3),
              float(np.float32(0.001)), float(np.float16(0.001))):
    got, ref = run(alpha)
    rel = abs(got - ref) / ref
    print(f"alpha={alpha!r:28} PFI={got:.15f} reference={ref:.15f} rel.err={rel:.2e}")
    if rel > 1e-9 or got > 1.0 + 1e-12:
        failures.append((alpha, got, ref))

# ---- the same tracker drives IncrementalSage: there Python-float contributions times a np.float32 alpha are
# evaluated entirely in float32 (NEP 50), so the efficiency identity C01 only holds to float32 accuracy.
import random
from ixai.explainer import IncrementalSage
names = ['a', 'b', 'c']


def model3(x):
    return {'output': 0.3 * x['a'] - 1.7 * x['b'] + 0.5 * x['c']}


sage_gap = {}
for alpha in (np.float32(0.001), float(np.float32(0.001))):
    random.seed(1); np.random.seed(1)
    sage = IncrementalSage(model3, loss, names, smoothing_alpha=alpha)
    rng = random.Random(3)
    worst = 0.0
    for t in range(2000):
        sage.explain_one({n: rng.gauss(0, 1) for n in names}, rng.gauss(0, 1))
        if t:
            gap = abs(sum(sage.importance_values[n] for n in names) - sage.explained_loss) / abs(sage.explained_loss)
            worst = max(worst, float(gap))
    sage_gap[repr(alpha)] = worst
    print(f"IncrementalSage alpha={alpha!r:28} worst relative efficiency gap = {worst:.2e}")
if sage_gap[repr(np.float32(0.001))] > 1e-9:
    sage_failure = sage_gap[repr(np.float32(0.001))]
else:
    sage_failure = None

if sage_failure is not None:
    print(f"\nC01 VIOLATED as well: with smoothing_alpha=np.float32(0.001) the SAGE values miss the explained loss by a "
          f"relative {sage_failure:.1e} (double rounding would be ~1e-15).")
if failures:
    print("\nC02 VIOLATED: every contribution is exactly 1.0, yet the 'exponentially smoothed' PFI value is")
    for alpha, got, ref in failures:
        print(f"   {got!r} (reference {ref!r}) for smoothing_alpha={alpha!r}")
    print("The same alpha VALUES passed as Python floats give the reference result, so only the numeric type differs.")
    sys.exit(1)
print("ok")

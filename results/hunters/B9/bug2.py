"""C18 (and the order in which C16's 'sum' normaliser is accumulated): the normalised PFI values of one and the
same seeded replay differ in their last bits from one interpreter start to the next.

MultiValueTracker keeps its keys in a SET (`_tracked_keys`) and `get()` builds the importance dict by iterating that
set, i.e. in string-hash order for str feature names. `_normalize_importance_values` then computes
`factor = sum(list(importance_values.values()))` in that order.  PFI importance values are np.float64 (they come
out of np.mean), for which the builtin sum() adds naively left to right (the compensated summation of Python 3.12
only applies to exact Python floats), so the normaliser - and with it every normalised importance value - depends
on PYTHONHASHSEED, which CPython randomises per process by default.

The script replays one fixed, seeded stream in child interpreters that differ ONLY in PYTHONHASHSEED and compares
the raw and the normalised importance values bit for bit.
"""
import os
import subprocess
import sys

CHILD = r'''
import warnings; warnings.filterwarnings("ignore")
import random, numpy as np
from ixai.explainer import IncrementalPFI
random.seed(1); np.random.seed(1)
names = ['alpha', 'beta', 'gamma', 'delta', 'eps']
w = dict(zip(names, [0.3, -1.7, 0.9, 2.2, 0.1]))
def model(x): return {'output': sum(w[n] * x[n] for n in names)}
def loss(y, p): return (y - p['output']) ** 2
ex = IncrementalPFI(model, loss, names, smoothing_alpha=0.1)
rng = random.Random(5)
for t in range(50):
    ex.explain_one({n: rng.gauss(0, 1) for n in names}, rng.gauss(0, 1))
iv = ex.importance_values
nv = ex.get_normalized_importance_values('sum')
print("ORDER", list(iv))
print("RAW", [float(iv[n]).hex() for n in names])
print("NORM", [float(nv[n]).hex() for n in names])
'''

if __name__ == '__main__':
    results = {}
    for hash_seed in ('0', '1', '2', '3'):
        env = dict(os.environ, PYTHONHASHSEED=hash_seed)
        out = subprocess.run([sys.executable, '-c', CHILD], env=env, capture_output=True, text=True, check=True).stdout
        lines = dict(line.split(' ', 1) for line in out.strip().splitlines())
        results[hash_seed] = lines
        print(f"PYTHONHASHSEED={hash_seed}: key order {lines['ORDER']}")
        print(f"    normalised: {lines['NORM']}")
    raws = {r['RAW'] for r in results.values()}
    norms = {r['NORM'] for r in results.values()}
    assert len(raws) == 1, "raw values differ (unexpected)"
    if len(norms) > 1:
        print("\nC18 VIOLATED: identical seeds, stream and configuration, raw importance values bit-identical, but "
              f"get_normalized_importance_values('sum') took {len(norms)} different bit patterns across interpreter "
              "starts (summation order = string-hash order of the feature names).")
        sys.exit(1)
    print("ok")

"""C05 (arguable - storage configuration is not enumerated in C05's quantifier).

BatchSage / IntervalSage accept any storage (BatchSage's docstring even names the reservoir
storages, whose default is store_targets=False; IntervalStorage has a store_targets flag too).
With a storage that keeps no targets, `get_data()` returns (x_data, []) and the loop
`for n, (x_i, y_i) in enumerate(zip(x_data, y_data))` in BatchSage.explain_many /
explain_many_original runs ZERO times: the explainer evaluates the model on the whole data set,
silently drops every y_i the caller passed to explain_one and returns 0.0 for every feature -
instead of values that sum to  mean_i[ loss(y_i, mean prediction) - loss(y_i, f(x_i)) ]  (C05) or
an error.

exit 1 = violated, exit 0 = fine.
"""
import random
import sys
import warnings

warnings.simplefilter("ignore")
import numpy as np

from ixai.explainer.sage import BatchSage, IntervalSage
from ixai.storage import UniformReservoirStorage, GeometricReservoirStorage, IntervalStorage
from ixai.utils.wrappers.base import Wrapper

random.seed(0)
np.random.seed(0)


class Model(Wrapper):
    def __init__(self):
        super().__init__(None, None)

    def one(self, x):
        return {'output': float(x['a'] + 2 * x['b'])}

    def __call__(self, x):
        return self.one(x) if isinstance(x, dict) else [self.one(r) for r in x]


def loss(y_true, y_pred):
    return (y_true - y_pred['output']) ** 2


model = Model()
stream = [({'a': i, 'b': (i * i) % 3}, float(i + 2 * ((i * i) % 3))) for i in range(6)]   # y == f(x): model loss 0
mean_pred = sum(model.one(x)['output'] for x, _ in stream) / len(stream)
expected = sum(loss(y, {'output': mean_pred}) - loss(y, model.one(x)) for x, y in stream) / len(stream)

problems = []
configs = [
    ("BatchSage + UniformReservoirStorage(size=10)   [default store_targets=False]",
     lambda: BatchSage(model, ['a', 'b'], loss, storage=UniformReservoirStorage(size=10)), {}),
    ("BatchSage(original) + GeometricReservoirStorage(size=10) [default store_targets=False]",
     lambda: BatchSage(model, ['a', 'b'], loss, storage=GeometricReservoirStorage(size=10)), {'original_sage': True}),
    ("IntervalSage + IntervalStorage(size=10, store_targets=False)",
     lambda: IntervalSage(model, ['a', 'b'], loss, interval_length=1,
                          storage=IntervalStorage(size=10, store_targets=False)), {}),
]
for label, make, kw in configs:
    explainer = make()
    for x, y in stream:
        values = explainer.explain_one(x, y, verbose=False, **kw)
    total = sum(values.values())
    if abs(total - expected) > 1e-9:
        problems.append(f"{label}: values {values} sum to {total}, C05 demands {expected}")

if problems:
    print("C05 VIOLATED (silently): targets passed to explain_one are dropped, all importances are 0.0")
    for p in problems:
        print(" -", p)
    sys.exit(1)
print("ok")

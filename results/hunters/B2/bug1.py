"""C06 - imputers and one-shot iterables.

C06 quantifies over "every feature subset (any iterable: list, set, empty, full)" and
"every n_samples >= 1" and demands that EVERY model evaluation made by the imputer takes each
requested feature from the background.  MarginalImputer.impute (and TreeImputer.impute) iterate
over `feature_subset` once per inner sample, so a one-shot iterable (iterator / generator /
map / filter object, all of which are `collections.abc.Iterable`) is exhausted after the first
sample: evaluations 2..n_samples silently use the UNPERTURBED instance.
DefaultImputer materialises the subset once and is not affected.

exit 1 = property violated (unmodified code), exit 0 = fine.
"""
import random
import sys
import warnings

warnings.simplefilter("ignore")
import numpy as np

from ixai.imputer import MarginalImputer, DefaultImputer, TreeImputer
from ixai.storage import BatchStorage, TreeStorage
from ixai.utils.wrappers.base import Wrapper

random.seed(0)
np.random.seed(0)


class Model(Wrapper):
    def __init__(self):
        super().__init__(None, None)
        self.inputs = []

    def __call__(self, x):
        self.inputs.append(dict(x))
        return {'output': x['a'] + 10 * x['b']}


problems = []
x_i = {'a': 1, 'b': 2}            # values that never occur in the background
background = [{'a': 100 + i, 'b': 200 + i} for i in range(5)]
N = 4

# ---- MarginalImputer, both strategies -------------------------------------------------------
for strategy in ('joint', 'product'):
    storage = BatchStorage(store_targets=False)
    for row in background:
        storage.update(row)
    model = Model()
    imputer = MarginalImputer(model, strategy, storage)
    for label, make_subset in [('list', lambda: ['a']),
                               ('iterator', lambda: iter(['a'])),
                               ('generator', lambda: (f for f in ['a', 'b'] if f == 'a'))]:
        model.inputs.clear()
        out = imputer.impute(make_subset(), dict(x_i), n_samples=N)
        assert len(out) == N
        not_imputed = [k for k, inp in enumerate(model.inputs) if inp['a'] == x_i['a']]
        if not_imputed:
            problems.append(f"MarginalImputer({strategy}) subset={label}: feature 'a' was requested but "
                            f"model evaluations {not_imputed} of {N} used the instance's own value: "
                            f"{model.inputs}")

# ---- DefaultImputer (control: behaves) ---------------------------------------------------------
model = Model()
imputer = DefaultImputer(model, {'a': -1, 'b': -2})
out = imputer.impute(iter(['a']), dict(x_i), n_samples=N)
if any(p != {'output': -1 + 10 * 2} for p in out):
    problems.append(f"DefaultImputer with iterator subset: {out}")

# ---- TreeImputer (same loop structure) -------------------------------------------------------
storage = TreeStorage(cat_feature_names=[], num_feature_names=['a', 'b'], grace_period=5, seed=1)
for i in range(30):
    storage.update({'a': 100. + i, 'b': 200. + i})
for use_storage in (True, False):
    model = Model()
    imputer = TreeImputer(model, storage, use_storage=use_storage)
    out = imputer.impute(iter(['a']), {'a': 1., 'b': 215.}, n_samples=N)
    not_imputed = [k for k, inp in enumerate(model.inputs) if inp['a'] == 1.]
    if not_imputed:
        problems.append(f"TreeImputer(use_storage={use_storage}) subset=iterator: evaluations {not_imputed} "
                        f"of {N} kept the instance's own value for the requested feature 'a'")

if problems:
    print("C06 VIOLATED: a requested feature is not replaced in every model evaluation")
    for p in problems:
        print(" -", p)
    sys.exit(1)
print("ok")

"""C16 (outside my focus area, found in passing) - get_confidence_bound raises KeyError in explainer
states that are reachable by a stream: before any observation and after the first one (which only
seeds the storage) no variance has been tracked yet, so `self.variances[feature_name]` fails instead
of yielding the finite bound (1-alpha)^t + sqrt(0 * ...) = (1-alpha)^t.  Normalisation in 'delta'
mode fails in the same states with "max() arg is an empty sequence".

Run:  PYTHONPATH=/tmp/wt_B4 /venv/bin/python /tmp/out_B4/bug3.py
Exits 1 (with an explanation) when the property is violated, 0 otherwise.
"""
import math
import sys
import warnings

warnings.filterwarnings("ignore")

from ixai.explainer import IncrementalPFI, IncrementalSage


def model(x):
    return {'output': x['a']}


def loss(y, p):
    return (y - p['output']) ** 2


problems = []
for explainer_class in (IncrementalPFI, IncrementalSage):
    explainer = explainer_class(model, loss, ['a', 'b'], smoothing_alpha=0.1, dynamic_setting=True)
    for t in range(3):  # stream prefixes of length 0, 1, 2
        for what, call in (("get_confidence_bound(0.5)", lambda: explainer.get_confidence_bound(0.5)),
                           ("get_normalized_importance_values('delta')",
                            lambda: explainer.get_normalized_importance_values('delta'))):
            try:
                result = call()
                fine = all(isinstance(v, (int, float)) and math.isfinite(v) for v in result.values())
                print(f"{explainer_class.__name__} after {t} observations: {what} = {result}")
                if not fine:
                    problems.append(f"{explainer_class.__name__} after {t} observations: {what} = {result}")
            except Exception as error:
                print(f"{explainer_class.__name__} after {t} observations: {what} raised {error!r}")
                problems.append(f"{explainer_class.__name__} after {t} observations: {what} raised {error!r}")
        explainer.explain_one({'a': float(t), 'b': 1.0}, 1.0)

if problems:
    print("\nC16 VIOLATED in states reachable by streams of length 0 and 1:")
    for problem in problems:
        print("  -", problem)
    sys.exit(1)
print("ok")
sys.exit(0)

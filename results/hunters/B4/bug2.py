"""C13 - RiverMetricToLossFunction is not a pure function of (y_true, y_pred) and does not leave the
metric's own reported value unchanged once the metric object carries state of its own (e.g. the
very common river idiom of tracking the model's running performance with the same metric object
that is handed to the explainer).

The loss is evaluated as update -> get -> revert *on the user's metric object*:
  * get() then reports the running statistic over (own history + this pair), not the value of the
    single pair, so the loss of one and the same pair changes with the history;
  * revert is not an exact inverse of update: for Mean-based metrics the reported value drifts in the
    last bits, and for river.metrics.RMSLE (update() takes logs, the inherited revert() does not)
    the metric's own value is destroyed by a single loss evaluation.

Run:  PYTHONPATH=/tmp/wt_B4 /venv/bin/python /tmp/out_B4/bug2.py
Exits 1 (with an explanation) when the property is violated, 0 otherwise.
"""
import random
import sys
import warnings

warnings.filterwarnings("ignore")

import numpy as np
from river import metrics

from ixai.explainer import IncrementalPFI
from ixai.storage import BatchStorage
from ixai.imputer import MarginalImputer
from ixai.utils.validators import validate_loss_function

problems = []


def fresh_value(metric_class, y_true, y_pred):
    fresh = metric_class()
    fresh.update(y_true, y_pred)
    value = fresh.get()
    return -value if fresh.bigger_is_better else value


# ---------------------------------------------------------------------------------------------
# 1. purity: the same pair, evaluated at different points of the metric's life
# ---------------------------------------------------------------------------------------------
for metric_class in (metrics.MAE, metrics.MSE, metrics.Accuracy):
    metric = metric_class()
    loss = validate_loss_function(metric)       # accepted while fresh ...
    first = loss(5, {'output': 1})
    for y_true, y_pred in [(1, 2), (3, 1), (2, 2.5)]:
        metric.update(y_true, y_pred)           # ... the user also tracks performance with it
    validate_loss_function(metric)              # a used metric is accepted as well (second explainer)
    second = loss(5, {'output': 1})
    expected = fresh_value(metric_class, 5, 1)
    print(f"{metric_class.__name__:9s} loss(5, 1): fresh metric {expected!r}, wrapper on unused metric "
          f"{first!r}, wrapper after 3 own updates {second!r}")
    if second != expected:
        problems.append(f"{metric_class.__name__}: loss(5, {{'output': 1}}) = {second!r} once the metric has "
                        f"seen 3 pairs of its own; a fresh metric reports {expected!r}")

# ---------------------------------------------------------------------------------------------
# 2. "leaves the metric's own reported value unchanged"
# ---------------------------------------------------------------------------------------------
metric = metrics.RMSLE()
loss = validate_loss_function(metric)
for y_true, y_pred in [(1, 2), (3, 1), (2, 2.5)]:
    metric.update(y_true, y_pred)
before = metric.get()
loss(5, {'output': 1})
after = metric.get()
print(f"RMSLE     own value before one loss call {before!r}, after {after!r}")
if after != before:
    problems.append(f"RMSLE: the metric's own reported value changed from {before!r} to {after!r} "
                    f"through a single loss evaluation")

metric = metrics.MAE()
loss = validate_loss_function(metric)
rng = random.Random(0)
for _ in range(10):
    metric.update(rng.random(), rng.random())
before = metric.get()
for _ in range(1000):
    loss(rng.random() * 100, {'output': rng.random()})
after = metric.get()
print(f"MAE       own value before 1000 loss calls {before!r}, after {after!r}")
if after != before:
    problems.append(f"MAE: the metric's own reported value drifted from {before!r} to {after!r} "
                    f"through loss evaluations only")


# ---------------------------------------------------------------------------------------------
# 3. consequence for an explainer: PFI shrinks with the length of the metric's own history
# ---------------------------------------------------------------------------------------------
def model(x):
    return {'output': 2.0 * x['a']}


def run(track_performance_with_same_metric):
    random.seed(1)
    np.random.seed(1)
    metric = metrics.MAE()
    storage = BatchStorage(store_targets=False)
    imputer = MarginalImputer(model, 'joint', storage)
    explainer = IncrementalPFI(model, metric, ['a', 'b'], storage=storage, imputer=imputer,
                               n_inner_samples=1, dynamic_setting=False)
    rng = random.Random(2)
    for _ in range(300):
        x = {'a': rng.gauss(0, 1), 'b': rng.gauss(0, 1)}
        y = 2.0 * x['a'] + rng.gauss(0, 0.1)
        if track_performance_with_same_metric:
            metric.update(y, model(x)['output'])
        explainer.explain_one(x, y)
    return explainer.importance_values['a']


pfi_unshared = run(False)
pfi_shared = run(True)
print(f"PFI('a') with a metric used only as loss: {pfi_unshared!r}; "
      f"same stream, metric also updated by the user: {pfi_shared!r}")
if abs(pfi_shared - pfi_unshared) > 1e-9:
    problems.append(f"PFI('a') = {pfi_shared!r} instead of {pfi_unshared!r} when the user also updates the "
                    f"metric object (each loss difference is divided by the metric's own count + 1)")

if problems:
    print("\nC13 VIOLATED (loss is not a pure function of its arguments / metric's own value not preserved):")
    for problem in problems:
        print("  -", problem)
    sys.exit(1)
print("ok")
sys.exit(0)

"""C13 - a dict-based river metric that validate_loss_function accepts does NOT receive the whole
prediction dict: river.metrics.multioutput.ExactMatch is classified as a single-value metric.

Run:  PYTHONPATH=/tmp/wt_B4 /venv/bin/python /tmp/out_B4/bug1.py
Exits 1 (with an explanation) when the property is violated, 0 otherwise.
"""
import random
import sys
import warnings

warnings.filterwarnings("ignore")

import numpy as np
from river.metrics.base import Metric
from river.metrics.multioutput import ExactMatch

from ixai.explainer import IncrementalPFI
from ixai.storage import BatchStorage
from ixai.imputer import MarginalImputer
from ixai.utils.validators import validate_loss_function

random.seed(0)
np.random.seed(0)
problems = []

# ---------------------------------------------------------------------------------------------
# 1. the property itself: loss(y_true, y_pred) == value a fresh metric reports after that pair
# ---------------------------------------------------------------------------------------------
metric = ExactMatch()
assert isinstance(metric, Metric)
loss = validate_loss_function(metric)          # accepted, no error
print("ExactMatch accepted by validate_loss_function; classified dict-input =",
      loss._dict_input_metric)


def fresh_value(y_true, y_pred):
    fresh = ExactMatch()
    fresh.update(y_true, y_pred)
    value = fresh.get()
    return -value if fresh.bigger_is_better else value


pairs = [
    ({'l1': True, 'l2': False}, {'l1': True, 'l2': False}),    # exact match      -> fresh -1.0
    ({'l1': True, 'l2': False}, {'l1': True, 'l2': True}),     # one label wrong  -> fresh -0.0
    ({'l1': False, 'l2': False}, {'l1': False, 'l2': False}),  # exact match      -> fresh -1.0
]
for y_true, y_pred in pairs:
    expected = fresh_value(y_true, y_pred)
    got = loss(y_true, y_pred)
    print(f"  y_true={y_true} y_pred={y_pred}: loss={got!r} fresh metric={expected!r}")
    if got != expected:
        problems.append(f"loss({y_true}, {y_pred}) = {got!r}, a fresh ExactMatch reports {expected!r}")

# ---------------------------------------------------------------------------------------------
# 2. consequence: an explainer using the accepted metric sees a constant loss
# ---------------------------------------------------------------------------------------------
def model(x):  # deterministic multi-label model; only feature 'a' matters
    return {'l1': x['a'] > 0, 'l2': x['a'] > 1}


def exact_match_loss(y_true, y_pred):  # the same metric written by hand (smaller is better)
    return -float(y_true == y_pred)


def run(loss_function):
    random.seed(1)
    np.random.seed(1)
    storage = BatchStorage(store_targets=False)
    imputer = MarginalImputer(model, 'joint', storage)
    explainer = IncrementalPFI(model, loss_function, ['a', 'b'], storage=storage, imputer=imputer,
                               n_inner_samples=1, dynamic_setting=False)
    rng = random.Random(2)
    for _ in range(200):
        x = {'a': rng.choice([-1, 0.5, 2]), 'b': rng.choice([-1, 0.5, 2])}
        explainer.explain_one(x, model(x))
    return explainer.importance_values


pfi_metric = run(ExactMatch())
pfi_manual = run(exact_match_loss)
print("PFI with river ExactMatch as loss :", pfi_metric)
print("PFI with the hand-written loss    :", pfi_manual)
if abs(pfi_metric['a'] - pfi_manual['a']) > 1e-12:
    problems.append(f"PFI of the only relevant feature is {pfi_metric['a']!r} with the river metric but "
                    f"{pfi_manual['a']!r} with the identical hand-written loss")

# ---------------------------------------------------------------------------------------------
# 3. informational only (does not influence the exit code): the same mechanism makes LogLoss blind to
#    the probability dicts river itself feeds it (predict_proba_one output); whether LogLoss counts as
#    "single-value" or "dict-based" in C13 is debatable, ExactMatch above is not.
# ---------------------------------------------------------------------------------------------
from river import metrics as river_metrics
log_loss = validate_loss_function(river_metrics.LogLoss())
good, bad = {False: .1, True: .9}, {False: .9, True: .1}
fresh_good, fresh_bad = river_metrics.LogLoss(), river_metrics.LogLoss()
fresh_good.update(True, good)
fresh_bad.update(True, bad)
print(f"[info] LogLoss on predict_proba_one dicts: wrapper {log_loss(True, good)!r} / {log_loss(True, bad)!r}, "
      f"fresh metric {fresh_good.get()!r} / {fresh_bad.get()!r}")

if problems:
    print("\nC13 VIOLATED: ExactMatch is a river Metric accepted by validate_loss_function whose "
          "predictions are dicts, but the wrapper hands it y_pred.get('output', 0) instead of the "
          "whole dict:")
    for problem in problems:
        print("  -", problem)
    sys.exit(1)
print("ok")
sys.exit(0)

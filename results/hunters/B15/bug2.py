"""C03 / C15 (state left behind by an exception raised half-way through the tracker updates of IncrementalSage).

All losses are finite floats.  For one outlier observation (a feature value of 1e80) the squared-error loss is large (1e160); every quantity SAGE tracks for it
(contributions ~1e160, their running means, the marginal / model loss) is finite - only the squared deviation for the
variance, (c - estimate) ** 2, exceeds the float range.  Python's float ** raises OverflowError there (NumPy floats, as
IncrementalPFI produces them, give inf instead), and it does so AFTER the storage, the model-loss tracker, the marginal
prediction, the marginal-loss tracker and the importance trackers have been updated, but BEFORE the variance trackers
and seen_samples are.  The explainer is left half-updated; continuing the stream works, so the damage is silent.
"""
import sys, warnings, random
warnings.filterwarnings("ignore")
import numpy as np
from ixai.explainer import IncrementalSage
from ixai.storage import BatchStorage

random.seed(3); np.random.seed(3)

def model(x):
    return {'output': x['a'] + 2 * x['b']}

def loss(y_true, y_pred):
    d = y_true - y_pred['output']
    return d * d                                   # squared error, finite for |d| < 1.3e154

storage = BatchStorage(store_targets=False)
sage = IncrementalSage(model_function=model, loss_function=loss, feature_names=['a', 'b'],
                       storage=storage, dynamic_setting=False, n_inner_samples=1)
stream = [({'a': float(t), 'b': float(t % 3)}, float(3 * t)) for t in range(6)]
stream[4] = ({'a': 1e80, 'b': 1.0}, 0.0)          # one outlier: feature value 1e80 -> squared errors ~1e160 (finite)

problems = []
calls = 0
for t, (x, y) in enumerate(stream):
    before = dict(n_imp=sage._importance_trackers.N, n_var=sage._variance_trackers.N, seen=sage.seen_samples,
                  stored=len(storage), imp=dict(sage.importance_values))
    calls += 1
    try:
        sage.explain_one(x, y)
    except OverflowError as e:
        after = dict(n_imp=sage._importance_trackers.N, n_var=sage._variance_trackers.N, seen=sage.seen_samples,
                     stored=len(storage), imp=dict(sage.importance_values))
        print(f"call {t}: explain_one raised OverflowError: {e}")
        print("   before:", before)
        print("   after :", after)
        if after['imp'] != before['imp']:
            problems.append("the raising call changed the importance values (and model/marginal loss)")
        if after['stored'] != before['stored'] and after['seen'] == before['seen']:
            problems.append("the raising call updated the storage but was not counted in seen_samples")

print("after the stream: explain_one calls =", calls, " seen_samples =", sage.seen_samples,
      " importance updates =", sage._importance_trackers.N, " variance updates =", sage._variance_trackers.N)
if sage._importance_trackers.N != sage._variance_trackers.N:
    problems.append(f"importance trackers hold {sage._importance_trackers.N} observations, variance trackers "
                    f"{sage._variance_trackers.N}: the variances are no longer the running statistic of the same "
                    f"observations (C03)")
if sage.seen_samples != calls:
    problems.append(f"{calls} explain_one calls but seen_samples = {sage.seen_samples} (C15: one call counts one sample;"
                    f" C16: the confidence bound uses (1-alpha)^seen_samples)")
if problems:
    print("PROPERTY VIOLATED:")
    for p in problems:
        print(" -", p)
    sys.exit(1)
print("ok")

"""C13 / C17: one pair the metric cannot score poisons RollingROCAUC / RollingPRAUC used as loss for ever.

river's RollingROCAUC / RollingPRAUC buffer update() calls in Python lists and hand them to their Rust core only in
get() (and revert() flushes the buffer first).  For a pair whose score the Rust core rejects (None, a str label, ...)
update() is accepted, get() raises - and the revert() in RiverMetricToLossFunction's `finally` raises as well, *before*
removing the pair.  The pair stays in the shared metric: every later call, for perfectly valid pairs and by every
explainer sharing the metric, raises TypeError, and the metric's own get() raises too.
"""
import sys
import warnings
warnings.filterwarnings("ignore")
import random
import numpy as np
from river import metrics
from ixai.utils.validators.loss import validate_loss_function
from ixai.explainer import IncrementalSage

failures = []

# ---- part 1: the loss function alone (C13) ------------------------------------------------------------------------
for cls in (metrics.RollingROCAUC, metrics.RollingPRAUC):
    metric = cls()
    loss = validate_loss_function(metric)            # accepted
    fresh = cls(); fresh.update(True, 0.3)
    expected = -fresh.get()                          # value a fresh metric reports for the single pair, negated
    before = metric.get()
    assert loss(True, {'output': 0.3}) == expected   # fine so far
    try:
        loss(True, {'output': None})                 # a pair the metric cannot score: raises (fine in itself)
    except TypeError:
        pass
    try:
        got = loss(True, {'output': 0.3})            # a valid pair again
        if got != expected:
            failures.append(f"{cls.__name__}: loss(True, 0.3) = {got!r}, a fresh metric gives {expected!r}")
    except Exception as e:
        failures.append(f"{cls.__name__}: after ONE unscorable pair the valid pair (True, 0.3) raises "
                        f"{type(e).__name__}: {e}  (fresh metric: {expected!r})")
    try:
        after = metric.get()
        if after != before:
            failures.append(f"{cls.__name__}: metric's own value changed {before!r} -> {after!r}")
    except Exception as e:
        failures.append(f"{cls.__name__}: the metric's own get() was {before!r} and now raises {type(e).__name__}; "
                        f"buffer left behind: labels={metric._buf_labels} scores={metric._buf_scores}")

# ---- part 2: inside an explainer (C17: catch the error and continue the stream) -------------------------------------
random.seed(0); np.random.seed(0)
calls = {'n': 0}
def model(x):
    calls['n'] += 1
    if calls['n'] == 7:                              # one transient fault: an unusable prediction
        return {'output': None}
    return {'output': 1 / (1 + np.exp(-(x['a'] - x['b'])))}

metric = metrics.RollingROCAUC()
sage = IncrementalSage(model_function=model, loss_function=metric, feature_names=['a', 'b'],
                       dynamic_setting=False, n_inner_samples=1)
raised = []
for t in range(12):
    x = {'a': random.random(), 'b': random.random()}
    y = x['a'] > x['b']
    snapshot = (dict(sage.importance_values), sage.marginal_loss, sage.model_loss)
    try:
        sage.explain_one(x, y)
    except Exception as e:
        raised.append((t, type(e).__name__))
        if snapshot != (dict(sage.importance_values), sage.marginal_loss, sage.model_loss):
            failures.append("estimates changed by a failing call")
if len(raised) > 1:
    failures.append(f"IncrementalSage with RollingROCAUC loss: one bad prediction in call {raised[0][0]}, but the "
                    f"stream cannot be continued - calls {[t for t, _ in raised]} all raised {raised[-1][1]}")

if failures:
    print("PROPERTY VIOLATED (C13 purity / C17 continue-after-error):")
    for f in failures:
        print(" -", f)
    sys.exit(1)
print("ok")

"""Reference models, written independently of the library: running statistics as closed forms over the
list of per-observation quantities (never as recurrences), and PFI / SAGE references driven by the
recorded seam history."""


class Stat:
    """Closed-form running statistic of a list of values."""

    def __init__(self, dynamic, alpha, zero):
        self.dynamic = dynamic
        self.alpha = alpha
        self.vals = []
        self.zero = zero

    def add(self, v):
        self.vals.append(v)

    def value(self):
        n = len(self.vals)
        if n == 0:
            return self.zero
        if not self.dynamic:
            tot = self.zero
            for v in self.vals:
                tot = tot + v
            return tot / n
        a = self.alpha
        tot = self.zero
        for i, v in enumerate(self.vals, start=1):
            tot = tot + a * (1 - a) ** (n - i) * v
        return tot


class MultiStat:
    """One Stat per key, started when the key first appears, zero-filled when omitted later."""

    def __init__(self, dynamic, alpha, zero):
        self.args = (dynamic, alpha, zero)
        self.stats = {}
        self.zero = zero

    def add(self, values):
        for k, v in values.items():
            if k not in self.stats:
                self.stats[k] = Stat(*self.args)
            self.stats[k].add(v)
        for k, s in self.stats.items():
            if k not in values:
                s.add(0)

    def value(self):
        return {k: s.value() for k, s in self.stats.items()}

    def normalized(self):
        vals = self.value()
        if len(vals) <= 1:
            return vals
        tot = self.zero
        for v in vals.values():
            tot = tot + v
        if tot == 0:
            return {k: 0.0 for k in vals}
        return {k: v / tot for k, v in vals.items()}


def mean_prediction(preds, zero):
    """Per-label mean of a list of prediction dicts; a label missing from a dict counts as 0."""
    labels = []
    for p in preds:
        for lab in p:
            if lab not in labels:
                labels.append(lab)
    n = len(preds)
    out = {}
    for lab in labels:
        tot = zero
        for p in preds:
            tot = tot + p.get(lab, 0)
        out[lab] = tot / n
    return out


def mean(vals, zero):
    tot = zero
    for v in vals:
        tot = tot + v
    return tot / len(vals)


class ParseError(Exception):
    """The recorded history does not have the shape the property prescribes (itself a finding)."""


def split_chain(events, names, n_inner, explicit_imputer):
    """Split the events of one estimating explain_one into p0 and the per-imputation groups.

    Returns (p0_out, groups) where groups is a list of dicts
      {"subset": list|None, "preds": [pred dicts], "inputs": [model inputs]}.
    With an explicit (recording) imputer, groups follow the II/IO events and p0 is the first model
    evaluation made outside any impute call (wherever it happens); otherwise the first model event is p0
    and the remaining ones are cut into consecutive chunks of n_inner.
    """
    groups = []
    if explicit_imputer:
        cur = None
        p0 = None
        for e in events:
            if e[0] == "II":
                if cur is not None:
                    raise ParseError("nested impute calls")
                cur = {"subset": e[2], "subset_type": e[3], "x": e[4], "n": e[5], "preds": None, "inputs": []}
            elif e[0] == "IO":
                if cur is None:
                    raise ParseError("impute exit without entry")
                cur["preds"] = e[2]
                groups.append(cur)
                cur = None
            elif e[0] == "M":
                if cur is None:
                    if p0 is None:
                        p0 = e[2]
                else:
                    cur["inputs"].append(e[1])
        if cur is not None:
            raise ParseError("impute call did not return")
        if p0 is None:
            raise ParseError("no unperturbed model evaluation in an estimating step")
    else:
        model_events = [e for e in events if e[0] == "M"]
        if not model_events:
            raise ParseError("no model evaluation in an estimating step")
        p0 = model_events[0][2]
        rest = model_events[1:]
        if n_inner <= 0 or len(rest) % n_inner != 0:
            raise ParseError("model evaluations (%d) are not a multiple of n_inner (%d)" % (len(rest), n_inner))
        for i in range(0, len(rest), n_inner):
            chunk = rest[i:i + n_inner]
            groups.append({"subset": None, "n": n_inner, "preds": [c[2] for c in chunk],
                           "inputs": [c[1] for c in chunk]})
    return p0, groups


class PFIRef:
    """Closed-form reference for IncrementalPFI (C02)."""

    def __init__(self, names, dynamic, alpha, n_inner, lossfn, zero):
        self.names = list(names)
        self.n_inner = n_inner
        self.lossfn = lossfn
        self.zero = zero
        self.imp = MultiStat(dynamic, alpha, zero)
        self.var = MultiStat(dynamic, alpha, zero)
        self.steps = 0

    def step(self, events, x, y, n_inner, explicit_imputer):
        n = self.n_inner if n_inner is None else n_inner
        p0, groups = split_chain(events, self.names, n, explicit_imputer)
        if len(groups) != len(self.names):
            raise ParseError("expected %d imputations (one per feature), saw %d" % (len(self.names), len(groups)))
        l0 = self.lossfn(y, p0)
        contrib = {}
        for f, g in zip(self.names, groups):
            if g["subset"] is not None and list(g["subset"]) != [f]:
                raise ParseError("imputation for feature %r requested subset %r" % (f, g["subset"]))
            if len(g["preds"]) != n:
                raise ParseError("imputation returned %d predictions, n_inner=%d" % (len(g["preds"]), n))
            losses = [self.lossfn(y, p) for p in g["preds"]]
            contrib[f] = mean(losses, self.zero) - l0
        self.imp.add(contrib)
        iv = self.imp.value()
        self.var.add({f: (contrib[f] - iv[f]) ** 2 for f in self.names})
        self.steps += 1
        return contrib

    def importance(self):
        return self.imp.value()

    def variances(self):
        return self.var.value()


class SageRef:
    """Closed-form reference for IncrementalSage (C03)."""

    def __init__(self, names, dynamic, alpha, n_inner, lossfn, zero, lbib):
        self.names = list(names)
        self.n_inner = n_inner
        self.lossfn = lossfn
        self.zero = zero
        self.lbib = lbib
        self.imp = MultiStat(dynamic, alpha, zero)
        self.var = MultiStat(dynamic, alpha, zero)
        self.mpred = MultiStat(dynamic, alpha, zero)
        self.mloss = Stat(dynamic, alpha, zero)
        self.modloss = Stat(dynamic, alpha, zero)
        self.marginal_prediction = {}
        self.steps = 0
        self.last_order = None

    def infer_order(self, groups, x):
        """Order in which features were revealed.  With an explicit imputer: read off the subsets.
        Otherwise inferred from the model inputs (needs values that identify their row)."""
        remaining = list(self.names)
        order = []
        for g in groups:
            if g["subset"] is not None:
                sub = list(g["subset"])
                if len(set(map(_key, sub))) != len(sub):
                    raise ParseError("imputation subset with repeated features: %r" % (sub,))
                gone = [f for f in remaining if not _contains(sub, f)]
                extra = [f for f in sub if not _contains(remaining, f)]
                if extra or len(gone) != 1:
                    raise ParseError("imputation subsets do not shrink by exactly one unrevealed feature: "
                                     "remaining=%r subset=%r" % (remaining, sub))
                f = gone[0]
            else:
                cands = None
                for inp in g["inputs"]:
                    same = [f for f in remaining if inp.get(f) == x[f]]
                    cands = same if cands is None else [f for f in cands if f in same]
                # features still imputed differ from x (unique values); exactly one newly equal
                if cands is None or len(cands) != 1:
                    return None
                f = cands[0]
            order.append(f)
            remaining = [r for r in remaining if not (r == f)]
        return order

    def step(self, events, x, y, n_inner, explicit_imputer):
        n = self.n_inner if n_inner is None else n_inner
        p0, groups = split_chain(events, self.names, n, explicit_imputer)
        if len(groups) != len(self.names):
            raise ParseError("expected %d chain steps, saw %d" % (len(self.names), len(groups)))
        order = self.infer_order(groups, x)
        self.last_order = order
        l_model = self.lossfn(y, p0)
        self.modloss.add(l_model)
        self.mpred.add(p0)
        self.marginal_prediction = self.mpred.normalized()
        prev = self.lossfn(y, self.marginal_prediction)
        self.mloss.add(prev)
        total_start = prev
        if order is None:
            # order unobservable: only the aggregate quantities can be referenced
            last = None
            for g in groups:
                if len(g["preds"]) != n:
                    raise ParseError("imputation returned %d predictions, n_inner=%d" % (len(g["preds"]), n))
                last = self.lossfn(y, mean_prediction(g["preds"], self.zero))
            self.steps += 1
            self.imp = None
            return None
        contrib = {}
        for f, g in zip(order, groups):
            if len(g["preds"]) != n:
                raise ParseError("imputation returned %d predictions, n_inner=%d" % (len(g["preds"]), n))
            cur = self.lossfn(y, mean_prediction(g["preds"], self.zero))
            contrib[f] = prev - cur
            prev = cur
        if self.imp is not None:
            self.imp.add(contrib)
            iv = self.imp.value()
            self.var.add({f: (contrib[f] - iv[f]) ** 2 for f in self.names})
        self.steps += 1
        return contrib

    def importance(self):
        return None if self.imp is None else self.imp.value()

    def variances(self):
        return None if self.imp is None else self.var.value()

    def marginal_loss(self):
        return self.mloss.value() + (1 if self.lbib else 0)

    def model_loss(self):
        return self.modloss.value() + (1 if self.lbib else 0)


def _key(f):
    return (type(f).__name__, f)


def _contains(seq, f):
    for g in seq:
        if g == f:
            return True
    return False

"""C13: a river metric used as loss is a pure, smaller-is-better function of its inputs.

World: ONE metric object (a recording dynamic subclass of the real river metric class) shared by 1-3 parties
(bare validate_loss_function wrappers, several wrappers around the same metric, IncrementalPFI / IncrementalSage /
BatchSage given the metric itself or a wrapper); the scheduler interleaves their calls, mid-stream `construct`
operations (which run the validation probe on the live metric) and `observe`."""
import copy
import hashlib
import inspect
import math

from . import seams, seeds
from .driver import Check
from .plan import wchoice
from .seeds import H

import river.metrics as rm
from river.metrics.base import Metric, RegressionMetric, BinaryMetric, MultiClassMetric
from ixai.utils.validators.loss import validate_loss_function
from ixai.explainer import IncrementalPFI
from ixai.explainer.sage import IncrementalSage, BatchSage
from ixai.storage import BatchStorage
from ixai.utils.wrappers.base import Wrapper

_EXTRA_ARGS = {"FBeta": {"beta": 2.0}, "MacroFBeta": {"beta": 0.5}, "MicroFBeta": {"beta": 2.0},
               "WeightedFBeta": {"beta": 0.5},
               # betas for two of the three labels the streams use: for a pair involving the third one the metric accepts
               # the update but cannot report a value (get raises)
               "MultiFBeta": {"betas": {0: 1.0, 1: 0.5}, "weights": {0: 1.0, 1: 1.0, 2: 1.0}}}

_ACCEPTED = None


def accepted_metrics():
    """Every metric class of the installed river that validate_loss_function accepts (enumerated at run time)."""
    global _ACCEPTED
    if _ACCEPTED is None:
        out = []
        for name in sorted(set(rm.__all__)):
            cls = getattr(rm, name, None)
            if cls is None or not inspect.isclass(cls) or not issubclass(cls, Metric):
                continue
            args = _EXTRA_ARGS.get(name, {})
            try:
                m = rec_metric_class(cls)(**args)
                w = validate_loss_function(m)
            except Exception:  # noqa: BLE001  not accepted in this environment
                continue
            # dict-input or single-value?  Observed at the metric seam (what the metric is handed when the wrapper is
            # called with a one-entry prediction dict), never read off private attributes of the wrapper.
            probe_log = []
            m._sim_log = probe_log
            for probe_value in (0.4375, 0.8125):      # values no earlier (validation) call can have used
                try:
                    w(0, {"output": probe_value})
                except Exception:  # noqa: BLE001
                    pass
                if probe_log:
                    break
            m._sim_log = None
            dict_input = any(ev[0] in ("U", "UX") and any(
                isinstance(a, tuple) and len(a) == 2 and a[0] == "y_pred" and isinstance(a[1], tuple) and a[1][:1] == ("dict",)
                for a in ev[1]) for ev in probe_log)
            fam = "reg" if isinstance(m, RegressionMetric) else "bin" if isinstance(m, BinaryMetric) else \
                "multi" if isinstance(m, MultiClassMetric) else "other"
            out.append({"name": name, "args": args, "family": fam, "dict_input": bool(dict_input),
                        "labels": bool(getattr(m, "requires_labels", True)),
                        "bigger_is_better": bool(getattr(m, "bigger_is_better", False))})
        _ACCEPTED = out
    return _ACCEPTED


class _Recorder:
    """Factory of recording metrics: a REAL instance of the real river class whose bound `update`, `revert` and `get`
    are shadowed by instance attributes that log and delegate.  The type of the object - and everything a library might
    derive from it (`type(m)`, `vars(type(m))`, the MRO, `isinstance`) - stays exactly that of the metric under test;
    river's own internal calls (`super().get()` ...) are not logged."""

    def __init__(self, cls):
        self.cls = cls

    def __call__(self, **args):
        cls = self.cls
        m = cls(**args)
        m._sim_log = None
        real_update, real_revert, real_get = m.update, m.revert, m.get

        def update(*a, **k):
            try:
                out = real_update(*a, **k)
            except Exception:
                # a rejected update (the validation probe feeds a scalar to a dict metric on purpose) is not an
                # applied one; whether it left the metric dirty is judged by the value check afterwards
                if m._sim_log is not None:
                    m._sim_log.append(("UX", _freeze(a, k)))
                raise
            if m._sim_log is not None:
                m._sim_log.append(("U", _freeze(a, k)))
            return out

        def revert(*a, **k):
            if m._sim_log is not None:
                m._sim_log.append(("R", _freeze(a, k)))
            return real_revert(*a, **k)

        def get():
            v = real_get()
            if m._sim_log is not None:
                m._sim_log.append(("G", v))
            return v

        m.update, m.revert, m.get = update, revert, get
        return m


_SUBCLASS_CACHE = {}


def rec_metric_subclass(cls):
    """Second recorder style: a dynamic subclass of the metric class (methods logged at class level).  Instances carry
    no reference cycle, so they are released - and their addresses reused - as promptly as plain metrics; the price is
    that `type(m)` is not the metric class itself.  Runs alternate between the two styles."""
    rc = _SUBCLASS_CACHE.get(cls)
    if rc is None:
        class RecMetric(cls):
            _sim_log = None

            def update(self, *a, **k):
                try:
                    out = cls.update(self, *a, **k)
                except Exception:
                    if self._sim_log is not None:
                        self._sim_log.append(("UX", _freeze(a, k)))
                    raise
                if self._sim_log is not None:
                    self._sim_log.append(("U", _freeze(a, k)))
                return out

            def revert(self, *a, **k):
                if self._sim_log is not None:
                    self._sim_log.append(("R", _freeze(a, k)))
                return cls.revert(self, *a, **k)

            def get(self):
                v = cls.get(self)
                if self._sim_log is not None:
                    self._sim_log.append(("G", v))
                return v
        RecMetric.__name__ = cls.__name__
        RecMetric.__qualname__ = cls.__qualname__
        rc = _SUBCLASS_CACHE[cls] = RecMetric
    return rc


def rec_metric_class(cls, style="instance"):
    return rec_metric_subclass(cls) if style == "subclass" else _Recorder(cls)


def _freeze(a, k):
    def fz(v):
        if isinstance(v, dict):
            return ("dict", tuple(sorted((repr(kk), vv) for kk, vv in v.items())))
        return v
    items = [fz(v) for v in a] + [(kk, fz(v)) for kk, v in sorted(k.items())]
    return tuple(items)


def same_value(a, b, rel=1e-9):
    try:
        fa, fb = float(a), float(b)
    except (TypeError, ValueError):
        return a == b
    if math.isnan(fa) and math.isnan(fb):
        return True
    if fa == fb:
        return True
    return abs(fa - fb) <= rel * max(1.0, abs(fa), abs(fb))


SPECIAL_REG = [-1.0, -2.0, 0.0, -1, -2, 3.5, 2.0 ** 61 - 1]


def gen_pair(info, h, special=False):
    """(y_true, prediction dict) in the value domain of the metric family.  `special`: values whose hashes collide in
    CPython (-1 / -2) and other edge values, for the metrics whose domain allows them."""
    fam = info["family"]
    if special and not info["dict_input"]:
        if fam == "reg" and info["name"] in ("MAE", "MSE", "RMSE"):
            return SPECIAL_REG[(h >> 8) % len(SPECIAL_REG)], {"output": SPECIAL_REG[(h >> 24) % len(SPECIAL_REG)]}
        if fam == "multi" and info["labels"]:
            labs = [-1, -2, 3]
            return labs[(h >> 8) % 3], {"output": labs[(h >> 12) % 3]}
    if info["dict_input"]:
        ps = [1 + (h >> (8 * i)) % 9 for i in range(3)]
        tot = float(sum(ps))
        return (h >> 40) % 3, {i: ps[i] / tot for i in range(3)}
    if fam == "reg":
        return 0.5 + ((h >> 8) % 190) / 20.0, {"output": 0.5 + ((h >> 24) % 190) / 20.0}
    if fam == "bin":
        y = bool((h >> 8) & 1)
        if info["labels"]:
            return y, {"output": bool((h >> 9) & 1)}
        return y, {"output": 0.02 + ((h >> 16) % 97) / 100.0}
    if info["labels"]:
        return (h >> 8) % 3, {"output": (h >> 12) % 3}
    return (h >> 8) % 3, {"output": 0.02 + ((h >> 16) % 97) / 100.0}


def gen_plan(rng, prop, run_index):
    metrics = accepted_metrics()
    info = metrics[run_index % len(metrics)]
    n_parties = wchoice(rng, [(1, 30), (2, 40), (3, 30)])
    parties = [wchoice(rng, [("wrapper", 45), ("pfi_metric", 12), ("sage_metric", 12), ("batch_metric", 8),
                             ("pfi_wrapped", 8), ("sage_wrapped", 8), ("same_wrapper", 7)]) for _ in range(n_parties)]
    if "wrapper" not in parties and rng.random() < 0.8:
        parties[0] = "wrapper"
    T = wchoice(rng, [(rng.randint(3, 10), 35), (rng.randint(10, 30), 45), (rng.randint(30, 60), 20)])
    long = run_index % 16 == 5
    if long:
        # long histories on few wrappers: hundreds of distinct pairs, then pairs seen long ago are evaluated again
        T = rng.randint(250, 600)
        parties = ["wrapper"] + (["same_wrapper"] if rng.random() < 0.5 else [])
        n_parties = len(parties)
    ops = []
    tag = 1
    for _ in range(T):
        kind = wchoice(rng, [("call", 78), ("construct", 10 if not long else 1), ("observe", 12 if not long else 2)])
        if kind == "call":
            op = {"op": "call", "party": rng.randrange(n_parties), "tag": tag, "rs": rng.getrandbits(48),
                  "kw": rng.random() < 0.3}
            if rng.random() < 0.3:
                op["shape"] = rng.choice(["extra_first", "extra_last", "no_output"])
            if rng.random() < 0.25:
                op["same_object"] = True
            if tag > 1 and rng.random() < 0.3:
                # history dependence: repeat an earlier pair exactly, or its values under permuted labels
                op["like"] = rng.randint(1, tag - 1) if not (long and rng.random() < 0.6) else rng.randint(1, max(1, tag // 4))
                if rng.random() < 0.6:
                    op["rot"] = rng.randint(1, 2)
                    op["other_y"] = rng.random() < 0.5
            ops.append(op)
            tag += 1
        elif kind == "construct":
            ops.append({"op": "construct", "what": rng.choice(["validate", "pfi", "sage", "batch"])})
        else:
            ops.append({"op": "observe"})
    cfg = {"metric": info, "parties": parties, "seed": rng.getrandbits(32),
           "recorder": "subclass" if (run_index // len(metrics)) % 2 else "instance"}
    if rng.random() < 0.35:
        cfg["churn"] = rng.randint(1, 3)
    if rng.random() < 0.2:
        cfg["special"] = True
    return {"property": prop, "kind": "metric",
            "config": cfg, "ops": ops,
            "rs0": rng.getrandbits(48)}


class _StubModel(Wrapper):
    def __init__(self, info, seed):
        super().__init__(None, None)
        self.info, self.seed = info, seed

    def __call__(self, x):
        if isinstance(x, dict):
            return gen_pair(self.info, H(self.seed, "m", tuple(sorted(x.items()))))[1]
        return [self(r) for r in x]


def run_metric_plan(plan):
    cfg = plan["config"]
    info = dict(cfg["metric"])
    # a plan that went through a JSON replay file has string keys in dict-valued constructor arguments ({0: 1.0} -> {"0": 1.0})
    info["args"] = {k: ({(int(kk) if isinstance(kk, str) and kk.lstrip("-").isdigit() else kk): vv for kk, vv in v.items()}
                        if isinstance(v, dict) else v) for k, v in info.get("args", {}).items()}
    seed = cfg["seed"]
    cls = getattr(rm, info["name"])
    res = {"ok": True, "violation": None, "ops_run": 0, "aborted": None, "probes": {}, "faults_fired": {},
           "estimating_steps": 0}
    probes = res["probes"]
    h = hashlib.blake2b(digest_size=16)

    def probe(name, n=1):
        probes[name] = probes.get(name, 0) + n

    def viol(oracle, detail, i):
        res["ok"] = False
        res["violation"] = {"property": "C13", "oracle": oracle, "detail": detail, "op_index": i, "cls": info["name"]}
        return res

    seams.reseed(plan.get("rs0", 1))
    log = []
    style = cfg.get("recorder", "instance")
    if cfg.get("churn"):
        # Other metric objects of both input kinds are validated and released before this run's metric exists: results
        # must not depend on library objects created or used before, nor on object identities.  The metric of the OTHER
        # input kind is released last, immediately before this run's metric is allocated (address reuse is likely).
        other_kind = rm.MAE if info["dict_input"] else rm.CrossEntropy
        tmp = None
        held = []
        for _ in range(32 * cfg["churn"]):
            try:
                if style == "subclass":
                    tmp = rec_metric_subclass(other_kind)()
                else:
                    tmp = other_kind()                 # plain instances: released by reference counting
                validate_loss_function(tmp)
                held.append(tmp)
            except Exception:  # noqa: BLE001
                pass
        tmp = None
        del held[:]            # all of them released at once, immediately before this run's metric is allocated
    try:
        metric = rec_metric_class(cls, style)(**info["args"])
        initial = cls(**info["args"]).get()
    except Exception as exc:  # noqa: BLE001
        res["aborted"] = "setup %s: %s" % (type(exc).__name__, str(exc)[:80])
        res["digest"] = h.hexdigest()
        return res
    sign = -1.0 if info["bigger_is_better"] else 1.0
    model = _StubModel(info, seed)
    names = ["a", "b"]
    parties = []
    returned = []          # values returned to explainer parties through a recording wrapper
    shared_pred = {}

    def make_party(kind):
        if kind in ("wrapper", "same_wrapper"):
            if kind == "same_wrapper" and any(p[0] == "wrapper" for p in parties):
                return ("wrapper", next(p[1] for p in parties if p[0] == "wrapper"))
            return ("wrapper", validate_loss_function(metric))
        loss = metric
        if kind.endswith("_wrapped"):
            inner = validate_loss_function(metric)

            def loss(y, p, _inner=inner):
                v = _inner(y, p)
                returned.append((y, dict(p), v))
                return v
        storage = BatchStorage(store_targets=True)
        storage.update({"a": 1, "b": 2}, gen_pair(info, H(seed, "y0"))[0])
        if kind.startswith("pfi"):
            e = IncrementalPFI(model_function=model, loss_function=loss, feature_names=names, storage=storage,
                               smoothing_alpha=0.5, n_inner_samples=1)
        elif kind.startswith("sage"):
            e = IncrementalSage(model_function=model, loss_function=loss, feature_names=names, storage=storage,
                                smoothing_alpha=0.5, n_inner_samples=1)
        else:
            e = BatchSage(model_function=model, loss_function=loss, feature_names=names, storage=storage,
                          n_inner_samples=1)
        return ("explainer", e)

    def check_discipline(i):
        """update -> get* -> revert with identical arguments, never nested; every get made while exactly one
        pair is applied returns what a fresh metric reports after that single pair."""
        open_args = None
        for ev in log:
            if ev[0] == "U":
                if open_args is not None:
                    return viol("nested-update", "update%r while update%r is still applied" % (ev[1], open_args), i)
                open_args = ev[1]
            elif ev[0] == "R":
                if open_args is None:
                    return viol("revert-without-update", "revert%r without a pending update" % (ev[1],), i)
                if ev[1] != open_args:
                    return viol("revert-arguments", "update%r reverted with %r" % (open_args, ev[1]), i)
                open_args = None
            elif ev[0] == "G" and open_args is not None:
                fresh = cls(**info["args"])
                kw = dict(p for p in open_args if isinstance(p, tuple) and len(p) == 2 and p[0] in ("y_true", "y_pred"))
                pos = [p for p in open_args if not (isinstance(p, tuple) and len(p) == 2 and p[0] in ("y_true", "y_pred"))]
                kw = {k: _thaw(v) for k, v in kw.items()}
                pos = [_thaw(v) for v in pos]
                try:
                    fresh.update(*pos, **kw)
                    want = fresh.get()
                except Exception:  # noqa: BLE001
                    continue
                if not same_value(ev[1], want):
                    return viol("state-leak", "metric reported %r while only update%r is applied; a fresh metric reports %r"
                                % (ev[1], open_args, want), i)
                probe("get_vs_fresh")
        if open_args is not None:
            return viol("update-not-reverted", "update%r was never reverted" % (open_args,), i)
        return None

    try:
        for kind in cfg["parties"]:
            parties.append(make_party(kind))
    except Exception as exc:  # noqa: BLE001
        res["aborted"] = "setup %s: %s" % (type(exc).__name__, str(exc)[:80])
        res["digest"] = h.hexdigest()
        return res
    metric._sim_log = log
    for i, op in enumerate(plan["ops"]):
        del log[:]
        del returned[:]
        if "rs" in op:
            seams.reseed(op["rs"])
        try:
            if op["op"] == "call":
                pk, obj = parties[op["party"] % len(parties)]
                y, pred = gen_pair(info, H(seed, "pair", op.get("like", op["tag"])), special=cfg.get("special", False))
                if "rot" in op and len(pred) > 1:
                    # the same values as an earlier call under permuted labels (and possibly another target)
                    keys = list(pred.keys())
                    vals = list(pred.values())
                    r_ = op["rot"] % len(keys)
                    if op.get("other_y") or op["tag"] % 2:
                        # same values in the same positions, labels permuted (and inserted in another order)
                        pred = {keys[(j + r_) % len(keys)]: vals[j] for j in range(len(keys))}
                    else:
                        pred = {k: vals[(j + r_) % len(keys)] for j, k in enumerate(keys)}
                    if op.get("other_y") and op["tag"] % 3 == 0:
                        y = gen_pair(info, H(seed, "pair", op["tag"]))[0]
                    probe("permuted_repeat")
                elif "like" in op:
                    probe("exact_repeat")
                shape = op.get("shape")
                if not info["dict_input"] and pk == "wrapper" and shape:
                    # "single-value metrics receive the 'output' entry of the prediction dict": other entries, in any
                    # position, must be ignored, and a dict without 'output' counts as 0
                    other = gen_pair(info, H(seed, "aux", op["tag"]))[1]["output"]
                    if shape == "extra_first":
                        pred = {"aux": other, "output": pred["output"]}
                    elif shape == "extra_last":
                        pred = {"output": pred["output"], 1: other}
                    elif shape == "no_output" and info["family"] == "reg":
                        pred = {"aux": other}
                    probe("prediction_shape_" + shape)
                if pk == "wrapper":
                    if op.get("same_object"):
                        # the caller reuses ONE dict object and mutates it in place between calls
                        shared_pred.clear()
                        shared_pred.update(pred)
                        pred = shared_pred
                        probe("same_dict_object_reused")
                    pred_before = copy.deepcopy(pred)
                    arg = copy.deepcopy(pred) if info["dict_input"] else pred.get("output", 0)
                    fresh = cls(**info["args"])
                    fresh.update(y_true=y, y_pred=arg)       # a pair the fresh metric rejects aborts the run (domain)
                    try:
                        want = sign * fresh.get()
                        unreportable = False
                    except Exception:  # noqa: BLE001
                        # the metric takes the pair but cannot report a value for it: the loss may raise the same way,
                        # but it must leave the shared metric as it found it (judged below, like after every operation)
                        unreportable = True
                        want = None
                    if unreportable:
                        probe("pair_without_reportable_value")
                        try:
                            obj(y_true=y, y_prediction=pred) if op.get("kw") else obj(y, pred)
                        except Exception:  # noqa: BLE001
                            pass
                        raise _Continue()
                    try:
                        got = obj(y_true=y, y_prediction=pred) if op.get("kw") else obj(y, pred)
                    except Exception as exc:  # noqa: BLE001
                        return viol("loss-raised", "loss(%r, %r) raised %s: %s although a fresh %s accepts the pair"
                                    % (y, pred, type(exc).__name__, str(exc)[:100], info["name"]), i)
                    probe("wrapper_call")
                    if not same_value(got, want):
                        return viol("loss-value", "loss(%r, %r) returned %r; fresh %s reports %r, sign %+d"
                                    % (y, pred, got, info["name"], fresh.get(), sign), i)
                    if pred != pred_before:
                        return viol("prediction-modified", "prediction dict %r -> %r" % (pred_before, pred), i)
                    # How often the metric is touched is not part of the property (a correct cache would be fine);
                    # when it is updated exactly once, it must have been handed the right entry of the prediction.
                    us = [ev for ev in log if ev[0] == "U"]
                    if len(us) == 1:
                        want_args = _freeze((), {"y_true": y, "y_pred": arg})
                        got_args = us[0][1]
                        flat = tuple(v[1] if isinstance(v, tuple) and len(v) == 2 and v[0] in ("y_true", "y_pred") else v
                                     for v in got_args)
                        want_flat = tuple(v[1] for v in want_args)
                        if sorted(map(repr, flat)) != sorted(map(repr, want_flat)):
                            return viol("metric-arguments", "metric was handed %r, expected (y_true=%r, y_pred=%r)"
                                        % (got_args, y, arg), i)
                    elif not us:
                        probe("loss_without_metric_update")
                    res["estimating_steps"] += 1
                else:
                    x = {"a": op["tag"] * 8 + 1, "b": op["tag"] * 8 + 2}
                    if isinstance(obj, BatchSage):
                        obj.explain_one(x, y, verbose=False)
                    else:
                        obj.explain_one(x, y)
                    probe("explainer_call")
                    res["estimating_steps"] += 1
                    for (yy, pp, v) in returned:
                        arg = pp if info["dict_input"] else pp.get("output", 0)
                        fresh = cls(**info["args"])
                        try:
                            fresh.update(y_true=yy, y_pred=arg)
                            want = sign * fresh.get()
                        except Exception:  # noqa: BLE001
                            continue
                        probe("explainer_loss_value")
                        if not same_value(v, want):
                            return viol("loss-value", "inside explain_one loss(%r, %r) returned %r; fresh metric says %r"
                                        % (yy, pp, v, want), i)
            elif op["op"] == "construct":
                what = op["what"]
                if what == "validate":
                    parties.append(("wrapper", validate_loss_function(metric)))
                else:
                    parties.append(make_party(what + "_metric"))
                probe("construct_midstream")
            else:
                a = cls.get(metric)
                b = cls.get(metric)
                if not same_value(a, b, 0.0):
                    return viol("get-not-idempotent", "%r then %r" % (a, b), i)
        except _Continue:
            pass
        except Exception as exc:  # noqa: BLE001
            res["aborted"] = "%s: %s" % (type(exc).__name__, str(exc)[:80])
            break
        res["ops_run"] = i + 1
        h.update(repr((i, op.get("op"), log)).encode())
        v = check_discipline(i)
        if v:
            return v
        try:
            now = cls.get(metric)
        except Exception as exc:  # noqa: BLE001
            return viol("metric-value-changed", "metric reported %r before the run; after the operation its get() raises %s: %s"
                        % (initial, type(exc).__name__, str(exc)[:80]), i)
        if not same_value(now, initial):
            return viol("metric-value-changed", "metric reports %r after the operation, %r before the run" % (now, initial), i)
    res["digest"] = h.hexdigest()
    return res


class _Continue(Exception):
    pass


def _thaw(v):
    if isinstance(v, tuple) and len(v) == 2 and v[0] == "dict":
        out = {}
        for kk, vv in v[1]:
            try:
                out[eval(kk, {"__builtins__": {}}, {"True": True, "False": False})] = vv   # keys are reprs of simple literals
            except Exception:  # noqa: BLE001
                out[kk] = vv
        return out
    return v


class C13Check(Check):
    prop = "C13"
    design_ref = "DESIGN.md section 4, C13"
    runs = {"quick": 2000, "thorough": 1500000}
    rule = ("plans = (metric class - every class of the installed river.metrics that validate_loss_function accepts, cycled by "
            "run index -, 1-3 parties sharing the metric object, interleaved call schedule with mid-stream construction "
            "and observation); non-trivial = at least one loss evaluation judged; distinct = digest of the metric-seam log")
    assumptions = ["river's own update/revert are trusted to be inverse up to rounding (values compared to 1e-9 relative)",
                   "value domains are chosen per metric family; a pair whose update the fresh metric itself rejects aborts the run; a "
                   "pair it accepts but cannot report (get raises) is passed on and must leave the shared metric untouched"]

    # violations that hinge on object identities (address reuse) depend on the heap of the interpreter that runs them
    replay_attempts = 3
    # a violation that stems from state the library keeps ACROSS objects (e.g. a module-level cache keyed by id()) may
    # depend on what the same worker process ran before; only a plan that reproduces it on its own is reported, so more
    # runs of a group are tried before giving up (giving up is a harness error, exit 3, never exit 0)
    group_tries = 16
    replay_budget = 48

    def n_runs(self, tier):
        return self.runs[tier]

    def gen(self, seed, tier, run_index):
        return gen_plan(seeds.run_rng(seed, self.prop, tier, run_index), self.prop, run_index)

    def run(self, plan):
        return run_metric_plan(plan)

    def reductions(self, plan):
        out = []
        if len(plan["config"]["parties"]) > 1:
            for j in range(len(plan["config"]["parties"])):
                p = copy.deepcopy(plan)
                keep = p["config"]["parties"][j]
                p["config"]["parties"] = [keep]
                for op in p["ops"]:
                    if "party" in op:
                        op["party"] = 0
                out.append(p)
        return out

    def extra_evidence(self, merged):
        return {"metric_classes": [m["name"] for m in accepted_metrics()]}


CHECKS = [C13Check]

"""The seams the simulator owns: global RNGs (per-op reseeding, adversary tape, recording), clock."""
import random
import time

import numpy as np

_REAL = {
    "random": random.random,
    "randrange": random.randrange,
    "randint": random.randint,
    "choices": random.choices,
    "permutation": np.random.permutation,
}

TINY = 5e-324            # smallest positive double
LO = 1e-12
HI = 1.0 - 2.0 ** -53    # largest double below 1
U_MODES = ("real", "tiny", "lo", "mid", "hi")
R_MODES = ("real", "first", "last")
P_MODES = ("real", "id", "rev", "rot")


def reseed(rs):
    random.seed(rs)
    np.random.seed(rs & 0xFFFFFFFF)


class Tape:
    """Adversary tape + draw recorder at the RNG seam.

    Contract-preserving: uniforms stay in (0,1), indices in range, permutations are permutations of the
    argument with NumPy's own coercion.  Anything not biased falls through to the seeded real generator.
    `spec` (per operation) = {"u": [modes], "r": [modes], "p": [modes]}; the i-th call of a kind inside the
    operation uses modes[i % len(modes)].
    """

    def __init__(self):
        self.spec = None
        self.n = {"u": 0, "r": 0, "p": 0}
        self.record = None     # list to append (kind, value) to, or None
        self.installed = False
        self.counts = {}

    # -- install / remove ------------------------------------------------------------------------
    def install(self):
        if self.installed:
            return
        random.random = self._random
        random.randrange = self._randrange
        random.randint = self._randint
        np.random.permutation = self._permutation
        self.installed = True

    def remove(self):
        if not self.installed:
            return
        random.random = _REAL["random"]
        random.randrange = _REAL["randrange"]
        random.randint = _REAL["randint"]
        np.random.permutation = _REAL["permutation"]
        self.installed = False

    def begin_op(self, spec, record=None):
        self.spec = spec
        self.n = {"u": 0, "r": 0, "p": 0}
        self.record = record

    def _mode(self, kind):
        spec = self.spec
        i = self.n[kind]
        self.n[kind] = i + 1
        if not spec:
            return "real"
        modes = spec.get(kind)
        if not modes:
            return "real"
        m = modes[i % len(modes)]
        if m != "real":
            key = kind + ":" + m
            self.counts[key] = self.counts.get(key, 0) + 1
        return m

    # -- wrappers --------------------------------------------------------------------------------
    def _random(self):
        m = self._mode("u")
        v = _REAL["random"]()
        if m == "zero":      # random.random() draws from [0, 1): 0.0 is a legal outcome (scripted cells only)
            v = 0.0
        elif m == "tiny":
            v = TINY
        elif m == "lo":
            v = LO
        elif m == "mid":
            v = 0.5
        elif m == "hi":
            v = HI
        elif v == 0.0:       # keep the open interval also for real draws (probability 2^-53)
            v = TINY
        if self.record is not None:
            self.record.append(("u", v))
        return v

    def _randrange(self, start, stop=None, step=1):
        m = self._mode("r")
        if stop is None:
            lo, hi = 0, start
        else:
            lo, hi = start, stop
        v = _REAL["randrange"](start, stop, step) if stop is not None else _REAL["randrange"](start)
        if step == 1 and hi > lo:
            if m == "first":
                v = lo
            elif m == "last":
                v = hi - 1
            elif m.startswith("idx:"):      # scripted generator: an exact (clamped) index
                v = lo + min(int(m[4:]), hi - lo - 1)
        if self.record is not None:
            self.record.append(("r", v, lo, hi))
        return v

    def _randint(self, a, b):
        m = self._mode("r")
        v = _REAL["randint"](a, b)
        if b >= a:
            if m == "first":
                v = a
            elif m == "last":
                v = b
        if self.record is not None:
            self.record.append(("r", v, a, b + 1))
        return v

    def _permutation(self, x):
        m = self._mode("p")
        real = _REAL["permutation"](x)
        if m == "real" or len(real) == 0:
            out = real
        else:
            base = np.arange(x) if isinstance(x, (int, np.integer)) else np.array(x)
            if m == "id":
                out = base
            elif m == "rev":
                out = base[::-1].copy()
            else:  # rot
                out = np.concatenate([base[1:], base[:1]])
        if self.record is not None:
            self.record.append(("p", tuple(out.tolist())))
        return out


TAPE = Tape()


class SimClock:
    """Simulated clock for C18: offset, skew and jumps; patched over the time module."""

    NAMES = ("time", "monotonic", "perf_counter", "time_ns", "monotonic_ns", "perf_counter_ns")

    def __init__(self, offset=0.0, skew=1.0):
        self.t = 1.0e9 + offset
        self.skew = skew
        self.reads = 0
        self._saved = {}

    def _tick(self):
        self.reads += 1
        self.t += 0.001 * self.skew
        return self.t

    def jump(self, dt):
        self.t += dt

    def install(self):
        for n in self.NAMES:
            self._saved[n] = getattr(time, n)
        time.time = self._tick
        time.monotonic = self._tick
        time.perf_counter = self._tick
        time.time_ns = lambda: int(self._tick() * 1e9)
        time.monotonic_ns = lambda: int(self._tick() * 1e9)
        time.perf_counter_ns = lambda: int(self._tick() * 1e9)

    def remove(self):
        for n, f in self._saved.items():
            setattr(time, n, f)
        self._saved = {}

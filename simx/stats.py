"""Exact binomial tests with Bonferroni correction and confirmation on an independent batch."""
import numpy as np
from scipy.stats import binom

FAMILY_ALPHA = 1e-10


def two_sided_p(k, n, p):
    """Exact two-sided binomial tail probability (doubling the smaller tail), vectorised."""
    k = np.asarray(k, dtype=float)
    n = np.asarray(n, dtype=float)
    p = np.asarray(p, dtype=float)
    lo = binom.cdf(k, n, p)
    hi = binom.sf(k - 1, n, p)
    out = np.minimum(1.0, 2.0 * np.minimum(lo, hi))
    # degenerate laws: p == 0 or p == 1 are deterministic claims
    out = np.where((p <= 0.0) & (k > 0), 0.0, out)
    out = np.where((p >= 1.0) & (k < n), 0.0, out)
    return out


class Family:
    """A family of binomial hypotheses of one run: (label, successes, trials, p0)."""

    def __init__(self):
        self.labels = []
        self.k = []
        self.n = []
        self.p = []

    def add(self, label, k, n, p):
        if n <= 0:
            return
        self.labels.append(label)
        self.k.append(k)
        self.n.append(n)
        self.p.append(p)

    def __len__(self):
        return len(self.labels)

    def evaluate(self, alpha):
        """-> (rejections [(label, k, n, p0, pvalue)], min p-value)"""
        if not self.labels:
            return [], 1.0
        pv = two_sided_p(self.k, self.n, self.p)
        rej = [(self.labels[i], int(self.k[i]), int(self.n[i]), float(self.p[i]), float(pv[i]))
               for i in np.nonzero(pv < alpha)[0]]
        return rej, float(pv.min())

"""World construction for explainer/imputer/storage simulations.

Real code: every ixai class.  Stubs: data rows, models, plain losses, stub imputers.
All stubs are deterministic functions of (config seed, inputs, model version); recording/fault proxies are
*subclasses of the real ixai classes* that log at the call-out seam and then delegate to the real code.
"""
import copy
import warnings
from fractions import Fraction

import numpy as np

from .exact import Exact
from .seeds import H

import ixai  # noqa: F401  (single import path)
from ixai.explainer import IncrementalPFI
from ixai.explainer.sage import IncrementalSage, BatchSage, IntervalSage
from ixai.imputer import MarginalImputer, DefaultImputer
from ixai.imputer.base import BaseImputer
from ixai.storage import (BatchStorage, IntervalStorage, SequenceStorage, UniformReservoirStorage,
                          GeometricReservoirStorage)
from ixai.utils.wrappers.base import Wrapper
from ixai.utils.wrappers.river import RiverWrapper

warnings.filterwarnings("ignore")


class InjectedFault(Exception):
    """The simulator's own fault type."""


EXC_TYPES = {
    "InjectedFault": InjectedFault,
    "KeyError": KeyError,
    "ZeroDivisionError": ZeroDivisionError,
    "AttributeError": AttributeError,
    "ValueError": ValueError,
    "TypeError": TypeError,
    "IndexError": IndexError,
    "StopIteration": StopIteration,
    "RuntimeError": RuntimeError,
    # BaseException subclasses: a bare `except:` or `except BaseException` in the library would swallow these too
    "KeyboardInterrupt": KeyboardInterrupt,
    "GeneratorExit": GeneratorExit,
}


# ----------------------------------------------------------------------------------------------
# numbers
# ----------------------------------------------------------------------------------------------

def make_num(arith):
    if arith == "exact":
        return lambda n, d=1: Exact(n, d)
    if arith == "fraction":          # the standard library's own exact numbers (they do NOT absorb floats)
        return lambda n, d=1: Fraction(n, d)
    if arith == "npfloat":
        return lambda n, d=1: np.float64(n) / np.float64(d)
    if arith == "npfloat32":       # single precision losses / outputs (C16 only: no reference values are compared)
        return lambda n, d=1: np.float32(n) / np.float32(d)
    return lambda n, d=1: float(n) / float(d)


def rat(h, num, lo=-10, hi=10, dens=4):
    """A small rational derived from a hash."""
    span = hi - lo + 1
    return num((h % span) + lo, ((h >> 16) % dens) + 1)


def canon(v):
    """Canonical exact rendering of a number (type-independent) for hashing."""
    f = Fraction(float(v)) if isinstance(v, (float, np.floating)) else Fraction(v)
    return (f.numerator, f.denominator)


def snap(d):
    return dict(d)


# ----------------------------------------------------------------------------------------------
# pure stub functions (no logging): used by the world *and* by the reference models
# ----------------------------------------------------------------------------------------------

class ModelFn:
    """Deterministic model family; pure function of (x, version)."""

    def __init__(self, mcfg, names, num):
        self.family = mcfg["family"]
        self.seed = mcfg.get("seed", 0)
        self.names = list(names)
        self.ignore = set(mcfg.get("ignore", []))         # indices into names
        self.used = [n for i, n in enumerate(self.names) if i not in self.ignore]
        self.k = mcfg.get("labels", 3)
        self.omit = mcfg.get("omit", False)
        self.grow = mcfg.get("grow", True)
        self.num = num
        self.version = 0
        self.lo = mcfg.get("lo", 0)

    def labels(self):
        if self.family in ("multi", "riverlabel"):
            k = min(self.k, 1 + self.version) if self.grow else self.k
            return ["L%d" % i for i in range(k)]
        if self.family == "zerosum":
            return ["a", "b"]
        return ["output"]

    def coef(self, j):
        return rat(H(self.seed, "c", self.version, j), self.num, -2, 2, 3)

    def raw(self, x):
        """Scalar output for scalar families."""
        fam, num, v = self.family, self.num, self.version
        if fam == "const":
            return rat(H(self.seed, "k", v), num)
        if fam == "linear":
            out = rat(H(self.seed, "b", v), num, -3, 3, 2)
            for j, n in enumerate(self.names):
                if j in self.ignore:
                    continue
                out = out + self.coef(j) * x[n]
            return out
        if fam == "inter":
            out = rat(H(self.seed, "b", v), num, -3, 3, 2)
            prod = num(1)
            for j, n in enumerate(self.names):
                if j in self.ignore:
                    continue
                out = out + self.coef(j) * x[n]
                prod = prod * (x[n] + num(1))
            return out + prod / num(8)
        # hash: arbitrary function of the used features
        return rat(H(self.seed, "h", v, tuple(canon(x[n]) for n in self.used)), num)

    def __call__(self, x):
        fam, num, v = self.family, self.num, self.version
        if fam in ("const", "linear", "inter", "hash"):
            return {"output": self.raw(x)}
        if fam == "riverint":
            return {"output": float(self.predict_int(x))}
        key = tuple(canon(x[n]) for n in self.used)
        if fam == "zerosum":
            a = rat(H(self.seed, "z", v, key), num, 1, 9, 3)
            return {"a": a, "b": -a}
        if fam == "multi":
            out = {}
            for lab in self.labels():
                if self.omit and H(self.seed, "o", v, lab, key) % 4 == 0:
                    continue
                out[lab] = rat(H(self.seed, "m", v, lab, key), num, self.lo, 9, 3)
            return out
        raise ValueError(fam)

    def predict_int(self, x):
        """For the riverint family: the integer class a river classifier's predict_one would return."""
        key = tuple(canon(x[n]) for n in self.used)
        return H(self.seed, "ri", self.version, key) % 2

    def predict_label(self, x):
        """For the riverlabel family: the string label a river classifier's predict_one would return."""
        labs = self.labels()
        key = tuple(canon(x[n]) for n in self.used)
        return labs[H(self.seed, "r", self.version, key) % len(labs)]


class LossFn:
    """Deterministic loss; pure function of (y, prediction dict)."""

    def __init__(self, lcfg, num, multi):
        self.family = lcfg["family"]
        self.metric = lcfg.get("metric")
        k = lcfg.get("scale_exp", 0)
        if not k:
            self.scale = None
        elif isinstance(num(1), float):
            self.scale = float("1e-%d" % k)          # also reaches the subnormal range (k > 308)
        else:
            self.scale = num(1, 10 ** k)
        self.seed = lcfg.get("seed", 0)
        self.num = num
        self.multi = multi
        self.mag = None
        self.last_mag = 0.0

    def target(self, y, lab):
        if self.multi:
            return self.num(1) if y == lab else self.num(0)
        return y

    def __call__(self, y, pred):
        self.mag = None
        v = self._unscaled(y, pred)
        out = v if self.scale is None else v * self.scale
        # magnitude of the terms the loss is made of (a signed loss can cancel to rounding noise; tolerances must then
        # follow the terms, not the tiny result)
        try:
            m = abs(float(v)) if self.mag is None else float(self.mag)
            self.last_mag = m if self.scale is None else m * float(self.scale)
        except Exception:
            self.last_mag = 0.0
        return out

    def _unscaled(self, y, pred):
        fam, num = self.family, self.num
        if fam == "river":
            # closed form of what a fresh river metric reports after the single pair, smaller-is-better
            p = pred.get("output", 0)
            if self.metric == "MSE":
                return (y - p) * (y - p)
            if self.metric == "MAE":
                return abs(y - p)
            if self.metric == "Accuracy":
                return -1.0 if y == p else -0.0
            raise ValueError(self.metric)
        if fam == "npint16":
            # a loss reporting narrow NumPy integers (PFI-only worlds: the chain differences of SAGE are not meant for them)
            v = int(abs(float(y) - float(pred.get("output", 0))) * 997) % 30001
            return np.int16(v)
        if fam in ("npuint8", "npbool"):
            # a zero-one loss reported as an unsigned / boolean NumPy scalar (what `np_a != np_b` or a uint8 cast gives);
            # everywhere-discontinuous in the prediction.  Only for oracles that need no reference values (C01, C15).
            items = tuple(sorted((repr(k), canon(v)) for k, v in pred.items() if v != 0))
            yk = y if isinstance(y, str) else canon(y)
            bit = H(self.seed, "L01", yk, items) % 2
            return np.uint8(bit) if fam == "npuint8" else np.bool_(bit)
        if fam == "bool01":
            # a zero-one loss that returns a Python bool (True = wrong)
            if self.multi:
                if not pred:
                    return True
                top = max(sorted(pred, key=repr), key=lambda lab: pred[lab])
                return bool(top != y)
            return bool(abs(y - pred.get("output", 0)) > num(3, 2))
        if fam == "hash":
            # a label with value 0 is the same prediction as a missing label (the library's own convention)
            items = tuple(sorted((repr(k), canon(v)) for k, v in pred.items() if v != 0))
            yk = y if isinstance(y, str) else canon(y)
            return rat(H(self.seed, "L", yk, items), num)
        labs = list(pred.keys())
        if self.multi and y not in pred:
            labs.append(y)
        if not self.multi and not labs:
            labs = ["output"]
        tot = num(0)
        for lab in labs:
            diff = self.target(y, lab) - pred.get(lab, 0)
            if fam == "sq":
                tot = tot + diff * diff
            elif fam == "abs":
                tot = tot + abs(diff)
            elif fam == "lin":       # signed, linear: sum contributions can cancel
                tot = tot + diff
                try:
                    self.mag = (self.mag or 0.0) + abs(float(self.target(y, lab))) + abs(float(pred.get(lab, 0)))
                except Exception:
                    pass
            else:
                raise ValueError(fam)
        return tot


# ----------------------------------------------------------------------------------------------
# the world
# ----------------------------------------------------------------------------------------------

class World:
    """Holds the shared parties of one simulated deployment and the seam log."""

    def __init__(self, cfg):
        self.cfg = cfg
        self.arith = cfg.get("arith", "exact")
        self.num = make_num(self.arith)
        self.names = [tuple_to_name(n) for n in cfg["names"]]
        self.d = len(self.names)
        self.values = cfg.get("values", "unique")
        self.seed = cfg.get("seed", 0)
        self.events = []
        self.counters = {"model": 0, "loss": 0, "imputer": 0, "storage": 0, "any": 0}
        self.fault = None
        self.fired = None
        self.maxloss = 0.0
        self.maxpred = 0.0
        multi = cfg["model"]["family"] in ("multi", "riverlabel", "zerosum")
        self.multi = multi
        self.model_fn = ModelFn(cfg["model"], self.names, self.num)
        self.loss_fn = LossFn(cfg.get("loss", {"family": "sq"}), self.num, multi)
        self.loss_fn_raw = self.loss_fn
        if cfg.get("loss", {}).get("family") == "river":
            raw = self.loss_fn

            def noted(y, p, _raw=raw):
                v = _raw(y, p)
                self.note_loss(v)
                return v
            noted.family = raw.family
            self.loss_fn = noted
        self.model = make_rec_model(self, cfg["model"])
        self.loss = make_rec_loss(self, cfg.get("loss", {"family": "sq"}))
        self.storages = [make_storage(self, i, s) for i, s in enumerate(cfg.get("storages", []))]
        self.imputers = [make_imputer(self, i, c) for i, c in enumerate(cfg.get("imputers", []))]
        self.explainers = []
        self.ecfgs = []
        self.construct_errors = []
        for ecfg in cfg.get("explainers", []):
            self.add_explainer(ecfg)

    # -- rows ------------------------------------------------------------------------------------
    def row(self, tag):
        x = self._row_values(tag)
        if self.cfg.get("key_order") == "shuffled":
            # the observation's key order need not follow the feature-name list
            items = list(x[0].items())
            k = H(self.seed, "ko", tag) % len(items)
            items = items[k:] + items[:k]
            if H(self.seed, "kr", tag) % 2:
                items.reverse()
            return dict(items), x[1]
        return x

    def _row_values(self, tag):
        x = {}
        for j, n in enumerate(self.names):
            if self.values == "unique":
                v = tag * 8 + j + 1
            elif self.values == "unique0":
                # the first feature identifies the row; the others are exactly zero for a quarter of the (row, feature)s
                v = 0 if (j >= 1 and H(self.seed, "z", tag, j) % 4 == 0) else tag * 8 + j + 1
            else:
                v = H(self.seed, "x", tag, j) % 3
            x[n] = v
        if self.cfg["model"]["family"] == "riverint":
            return x, H(self.seed, "y", tag) % 2
        if self.multi:
            labs = ["L%d" % i for i in range(self.cfg["model"].get("labels", 3))]
            if self.cfg["model"]["family"] == "zerosum":
                labs = ["a", "b"]
            y = labs[H(self.seed, "y", tag) % len(labs)]
        else:
            y = rat(H(self.seed, "y", tag), self.num, -6, 6, 2)
        return x, y

    # -- seam bookkeeping ------------------------------------------------------------------------
    def begin_op(self, fault=None):
        self.events = []
        for k in self.counters:
            self.counters[k] = 0
        self.fault = dict(fault) if fault else None
        self.fired = None

    def callout(self, kind):
        c = self.counters
        c[kind] += 1
        c["any"] += 1
        f = self.fault
        if f is not None and self.fired is None:
            if (f["kind"] == kind and c[kind] == f["k"]) or (f["kind"] == "any" and c["any"] == f["k"]):
                exc = EXC_TYPES[f.get("exc", "InjectedFault")]("injected %s#%d" % (f["kind"], f["k"]))
                self.fired = exc
                self.events.append(("F", kind, c[kind], c["any"]))
                raise exc

    def note_pred(self, out):
        try:
            for v in out.values():
                a = abs(float(v))
                if a > self.maxpred:
                    self.maxpred = a
        except Exception:
            pass

    def note_loss(self, v):
        try:
            a = abs(float(v))
            if a > self.maxloss:
                self.maxloss = a
        except Exception:
            pass

    # -- explainers ------------------------------------------------------------------------------
    def add_explainer(self, ecfg):
        try:
            e = build_explainer(self, ecfg)
        except Exception as exc:  # construction failure is an observation, judged by C15 only
            self.construct_errors.append((len(self.explainers), ecfg, exc))
            e = None
        self.explainers.append(e)
        self.ecfgs.append(ecfg)
        return e


def tuple_to_name(n):
    """Feature names in JSON: str, int, float pass through; ["f", 1.5] forces float, ["i", 3] int."""
    if isinstance(n, list):
        return float(n[1]) if n[0] == "f" else int(n[1])
    return n


def name_to_json(n):
    if isinstance(n, float):
        return ["f", n]
    return n


# ----------------------------------------------------------------------------------------------
# recording proxies
# ----------------------------------------------------------------------------------------------

def make_rec_model(world, mcfg):
    fn = world.model_fn
    style = mcfg.get("style", "wrapper")

    if mcfg["family"] in ("riverlabel", "riverint"):
        class RecRiver(RiverWrapper):
            """Real RiverWrapper around a stub classifier's predict_one; logs what the explainer sees."""

            def __call__(self, x):
                if isinstance(x, dict):
                    world.callout("model")
                    out = RiverWrapper.__call__(self, x)
                    world.note_pred(out)
                    world.events.append(("M", snap(x), snap(out)))
                    return out
                world.callout("model")
                outs = RiverWrapper.__call__(self, x)
                world.events.append(("MB", [snap(r) for r in x], [snap(o) for o in outs]))
                return outs
        return RecRiver(fn.predict_label if mcfg["family"] == "riverlabel" else fn.predict_int)

    def call(x):
        if isinstance(x, dict):
            world.callout("model")
            out = fn(x)
            world.note_pred(out)
            world.events.append(("M", snap(x), snap(out)))
            return out
        world.callout("model")
        outs = [fn(r) for r in x]
        world.events.append(("MB", [snap(r) for r in x], [snap(o) for o in outs]))
        return outs

    if style == "plain":
        return call

    class RecModel(Wrapper):
        def __init__(self):
            super().__init__(None, None)

        def __call__(self, x):
            return call(x)
    return RecModel()


def make_rec_loss(world, lcfg):
    fn = world.loss_fn
    sig = lcfg.get("sig", "pos")
    if lcfg["family"] == "river":
        # the REAL river metric object, shared by every explainer of the world (as in the repository's examples);
        # the explainers wrap it themselves via validate_loss_function
        import river.metrics as rm
        base = getattr(rm, lcfg["metric"])

        class NotingMetric(base):       # real metric; only observes the magnitudes it reports (float tolerances)
            def get(self):
                v = base.get(self)
                world.note_loss(v)
                return v
        NotingMetric.__name__ = base.__name__
        return NotingMetric()

    def core(y, p):
        world.callout("loss")
        v = fn(y, p)
        world.note_loss(getattr(fn, "last_mag", v))
        world.events.append(("L", y, snap(p), v))
        return v

    if sig == "pos":
        return lambda a, b: core(a, b)
    if sig == "posonly":
        def loss_posonly(y, p, /):
            return core(y, p)
        return loss_posonly
    if sig == "other":
        def loss_other(target, prediction_dict):
            return core(target, prediction_dict)
        return loss_other
    if sig == "named":       # the names the batch explainers happen to use as keywords
        def loss_named(y_true, y_prediction):
            return core(y_true, y_prediction)
        return loss_named
    if sig == "callable":
        class LossObj:
            def __call__(self, y_true, y_pred):
                return core(y_true, y_pred)
        return LossObj()
    if sig == "varargs":
        return lambda *args: core(args[0], args[1])
    if sig == "y_varargs":
        def loss_y_varargs(y_true, *preds):
            return core(y_true, preds[0])
        return loss_y_varargs
    if sig == "decorated":            # a decorator wrapper written without functools.wraps
        def deco(f):
            def wrapper(*args, **kwargs):
                return f(*args, **kwargs)
            return wrapper
        return deco(core)
    if sig == "partial":
        import functools
        return functools.partial(lambda scale, y, p: core(y, p), 1)
    if sig == "method":
        class Holder:
            def loss(self, y_true, y_pred):
                return core(y_true, y_pred)
        return Holder().loss
    if sig == "defaulted":
        def loss_defaulted(y_true, y_pred, sample_weight=None):
            return core(y_true, y_pred)
        return loss_defaulted
    raise ValueError(sig)


STORAGE_CLASSES = {
    "uniform": UniformReservoirStorage,
    "geometric": GeometricReservoirStorage,
    "interval": IntervalStorage,
    "sequence": SequenceStorage,
    "batch": BatchStorage,
}

_REC_STORAGE_CACHE = {}


def rec_storage_class(base):
    cls = _REC_STORAGE_CACHE.get(base)
    if cls is None:
        class RecStorage(base):
            _sim_world = None
            _sim_id = None

            def update(self, x, y=None):
                w = self._sim_world
                if w is not None:
                    w.callout("storage")
                    w.events.append(("SU", self._sim_id, snap(x), y, id(x)))
                return base.update(self, x, y)
        RecStorage.__name__ = "Rec" + base.__name__
        cls = _REC_STORAGE_CACHE[base] = RecStorage
    return cls


def storage_kwargs(scfg):
    kind = scfg["kind"]
    kw = {}
    if kind in ("uniform", "geometric", "interval"):
        kw["size"] = scfg.get("size", 3)
        if scfg.get("size_type"):
            kw["size"] = getattr(np, scfg["size_type"])(kw["size"])
    if "targets" in scfg:
        kw["store_targets"] = scfg["targets"]
    if kind == "geometric" and scfg.get("p") is not None:
        p = scfg["p"]
        kw["constant_probability"] = p[0] / p[1] if isinstance(p, list) else p
        if scfg.get("p_type"):      # "every p in [0,1]": a probability may well arrive as a narrow NumPy float
            kw["constant_probability"] = getattr(np, scfg["p_type"])(kw["constant_probability"])
    return kw


def make_storage(world, sid, scfg):
    cls = rec_storage_class(STORAGE_CLASSES[scfg["kind"]])
    s = cls(**storage_kwargs(scfg))
    s._sim_world = world
    s._sim_id = sid
    return s


class StubImputer(BaseImputer):
    """User-style imputer: arbitrary predictions for non-empty subsets, the model's own prediction
    (n_samples times) for the empty subset - the minimum an imputer has to honour for C01."""

    def __init__(self, world, iid, icfg):
        super().__init__(model_function=world.model)
        self._w = world
        self._iid = iid
        self._seed = icfg.get("seed", 0)

    def impute(self, feature_subset, x_i, n_samples=1):
        w = self._w
        sub = list(feature_subset)
        w.callout("imputer")
        w.events.append(("II", self._iid, sub, type(feature_subset).__name__, snap(x_i), n_samples))
        if not sub:
            p = self.model_function(x_i)
            out = [p for _ in range(n_samples)]
        else:
            key = (tuple(sorted(repr(f) for f in sub)), tuple((repr(k), canon(v)) for k, v in x_i.items()))
            labs = w.model_fn.labels()
            out = []
            for j in range(n_samples):
                pred = {}
                for lab in labs:
                    if len(labs) > 1 and H(self._seed, "io", key, j, lab) % 5 == 0:
                        continue
                    lo = 0 if len(labs) > 1 else -9
                    pred[lab] = rat(H(self._seed, "i", key, j, lab, w.model_fn.version), w.num, lo, 9, 3)
                out.append(pred)
        w.events.append(("IO", self._iid, [snap(p) for p in out]))
        return out


_REC_IMPUTER_CACHE = {}


def rec_imputer_class(base):
    cls = _REC_IMPUTER_CACHE.get(base)
    if cls is None:
        class RecImputer(base):
            _sim_world = None
            _sim_id = None

            def impute(self, feature_subset, x_i, n_samples=1):
                w = self._sim_world
                if w is None:
                    return base.impute(self, feature_subset, x_i, n_samples)
                try:
                    sub = list(feature_subset)
                except TypeError:
                    sub = None
                w.callout("imputer")
                st = getattr(self, "storage_object", None)
                rows = None
                if st is not None:
                    data = st.get_data()
                    rows = ([dict(r) for r in data[0]], [id(r) for r in data[0]], list(data[1]))
                w.events.append(("II", self._sim_id, sub, type(feature_subset).__name__, snap(x_i), n_samples, rows))
                out = base.impute(self, feature_subset, x_i, n_samples)
                after = None
                if st is not None:
                    data = st.get_data()
                    after = ([dict(r) for r in data[0]], [id(r) for r in data[0]], list(data[1]))
                w.events.append(("IO", self._sim_id, [snap(p) for p in out], after))
                return out
        RecImputer.__name__ = "Rec" + base.__name__
        cls = _REC_IMPUTER_CACHE[base] = RecImputer
    return cls


def make_imputer(world, iid, icfg):
    kind = icfg["kind"]
    if kind == "stub":
        return StubImputer(world, iid, icfg)
    if kind == "marginal":
        cls = rec_imputer_class(MarginalImputer)
        imp = cls(world.model, icfg.get("strategy", "joint"), world.storages[icfg["storage"]])
    elif kind == "default":
        cls = rec_imputer_class(DefaultImputer)
        vals = {n: default_value(world, j) for j, n in enumerate(world.names)}
        imp = cls(world.model, vals)
    else:
        raise ValueError(kind)
    imp._sim_world = world
    imp._sim_id = iid
    return imp


def default_value(world, j):
    """Configured default of feature j: negative (never a row value) or, for a third of the features, a falsy 0."""
    if H(world.seed, "dflt?", j) % 3 == 0:
        return 0
    return -(j + 1)


EXPLAINER_CLASSES = {"pfi": IncrementalPFI, "sage": IncrementalSage, "batch": BatchSage,
                     "interval": IntervalSage}


def alpha_value(world, a):
    if a is None:
        return None
    if isinstance(a, list):
        if world.arith == "npfloat32":       # single precision applies to losses/outputs, not to the configuration
            return float(a[0]) / float(a[1])
        return world.num(a[0], a[1])
    return a


def build_explainer(world, ecfg):
    cls = EXPLAINER_CLASSES[ecfg["cls"]]
    kw = {}
    if "storage" in ecfg:
        kw["storage"] = world.storages[ecfg["storage"]]
    if "imputer" in ecfg:
        kw["imputer"] = world.imputers[ecfg["imputer"]]
    if "n_inner" in ecfg:
        kw["n_inner_samples"] = ecfg["n_inner"]
        if ecfg.get("n_inner_type"):
            kw["n_inner_samples"] = getattr(np, ecfg["n_inner_type"])(ecfg["n_inner"])
    if ecfg["cls"] in ("pfi", "sage"):
        if "dynamic" in ecfg:
            kw["dynamic_setting"] = ecfg["dynamic"]
        if "alpha" in ecfg:
            kw["smoothing_alpha"] = alpha_value(world, ecfg["alpha"])
            if ecfg.get("alpha_type") and ecfg["alpha"] == [1, 1]:
                # alpha = 1, the closed end of (0, 1], carried by a narrow NumPy integer
                kw["smoothing_alpha"] = getattr(np, ecfg["alpha_type"])(1)
        if ecfg["cls"] == "sage" and "lbib" in ecfg:
            kw["loss_bigger_is_better"] = ecfg["lbib"]
    if ecfg["cls"] == "interval":
        if "interval_length" in ecfg:
            kw["interval_length"] = ecfg["interval_length"]
            if ecfg.get("interval_length_type"):      # a length is a length whatever integer type carries it
                kw["interval_length"] = getattr(np, ecfg["interval_length_type"])(kw["interval_length"])
        if "storage_length" in ecfg:
            kw["storage_length"] = ecfg["storage_length"]
    names = list(world.names)
    if ecfg.get("names_subset") is not None:
        names = [world.names[i] for i in ecfg["names_subset"]]
    given = list(names)
    loss = world.loss
    if ecfg.get("loss_override") is not None:
        loss = ecfg["loss_override"]
    if ecfg.get("positional", False):
        if ecfg["cls"] in ("pfi", "sage"):
            e = cls(world.model, loss, names, **kw)
        else:
            e = cls(world.model, names, loss, **kw)
    else:
        e = cls(model_function=world.model, loss_function=loss, feature_names=names, **kw)
    e._sim_names = list(given)
    e._sim_names_obj = names          # the very list object the caller handed over
    return e


def effective(ecfg, world):
    """The documented effective configuration of an explainer (defaults resolved from the docs)."""
    cls = ecfg["cls"]
    out = {"cls": cls, "n_inner": ecfg.get("n_inner", 1)}
    if cls in ("pfi", "sage"):
        out["dynamic"] = ecfg.get("dynamic", True)
        a = ecfg.get("alpha")
        if a is not None:
            out["alpha"] = alpha_value(world, a)
        else:   # documented default 0.001: a double, so the library's own weights (1 - alpha) are rounded
            out["alpha"] = Exact(0.001) if world.arith == "exact" else 0.001
            out["inexact"] = bool(out["dynamic"])
        out["lbib"] = ecfg.get("lbib", False)
    if world.cfg.get("loss", {}).get("family") in ("river", "bool01"):
        # a river metric reports doubles, a zero-one loss bools/ints: the library averages them in float arithmetic
        out["inexact"] = True
    if cls == "interval":
        out["interval_length"] = ecfg.get("interval_length", 1000)
        out["storage_length"] = ecfg.get("storage_length", 1000)
    return out

"""C18: results are reproducible from the global random seeds.

Replay A and replay B run in two FRESH interpreters with the same PYTHONHASHSEED; B is perturbed in everything the
property says must not matter (prior library activity, heap/object identities, wall clock).  Per-operation digests of
storage contents and importance values (float.hex) must be identical."""
import copy
import json
import os
import subprocess
import sys
import tempfile

from . import seeds
from .driver import Check, VERIF, child_pythonpath
from .plan import wchoice

BATCH = 16


def gen_config(rng, run_index, j):
    n_cat = wchoice(rng, [(0, 40), (1, 45), (2, 15)])
    n_num = wchoice(rng, [(1, 30), (2, 50), (3, 20)])
    if n_cat + n_num < 2:
        n_num = 2
    names = ["c%d" % i for i in range(n_cat)] + ["n%d" % i for i in range(n_num)]
    kind = wchoice(rng, [("uniform", 22), ("geometric", 22), ("interval", 10), ("sequence", 5), ("batch", 11), ("tree", 30)])
    s = {"kind": kind}
    if kind in ("uniform", "geometric", "interval"):
        s["size"] = rng.randint(1, 8)
    if kind in ("uniform", "geometric"):
        s["targets"] = rng.random() < 0.5
    if kind == "geometric" and rng.random() < 0.5:
        s["p"] = rng.choice([0.3, 1.0, 0.05])
    cfg = {"names": names, "storage": s, "seeds": [rng.getrandbits(32), rng.getrandbits(32)],
           "stream": rng.getrandbits(32), "perturb": rng.getrandbits(32), "T": rng.randint(12, 70)}
    if kind == "tree" and n_cat == 0 and rng.random() < 0.6:
        names = ["c0"] + names             # the categorical branch of the tree imputer needs a categorical feature
        cfg["names"] = names
    if kind == "tree":
        s.update({"max_depth": rng.randint(1, 4), "leaf": rng.randint(1, 5), "grace": rng.choice([5, 10, 20]),
                  "tree_seed": rng.randint(0, 10 ** 6)})
        if rng.random() < 0.15:
            s["tree_seed"] = None          # the documented default configuration
        cfg["imputer"] = wchoice(rng, [("tree", 35), ("tree-storage", 35), ("tree-direct", 20), (None, 10)])
        cfg["explainer"] = wchoice(rng, [(None, 40), ("pfi", 30), ("sage", 30)])
        if cfg["explainer"] is not None and cfg["imputer"] is None:
            cfg["imputer"] = "tree"        # the marginal imputer cannot read a TreeStorage
        cfg["T"] = rng.randint(20, 100)
    else:
        ek = wchoice(rng, [("pfi", 30), ("sage", 35), ("batch", 10), ("interval", 10), (None, 15)])
        if ek == "interval":
            s.clear()
            s.update({"kind": "interval", "size": rng.randint(1, 6)})
            cfg["interval_length"] = rng.randint(1, 4)
        if ek == "batch":
            s.clear()
            s.update({"kind": rng.choice(["batch", "interval"]), "size": rng.randint(2, 6)})
        cfg["explainer"] = ek
        cfg["imputer"] = wchoice(rng, [("marginal-joint", 35), ("marginal-product", 35), ("default", 10), (None, 20)])
        if ek is None and cfg["imputer"] is None:
            cfg["imputer"] = "marginal-product"
    # (string categories are not generated for TreeStorage: river's own Hoeffding trees break split ties in set order,
    # i.e. in string-hash order, so a tree-based replay under another hash secret differs whatever iXAI does)
    if kind != "tree" and rng.random() < 0.25:
        cfg["model"] = "riverlabel"      # the real RiverWrapper around a label-predicting model (one-hot outputs)
        cfg["dynamic"] = rng.random() < 0.4
    if kind != "tree" and cfg.get("explainer") in ("pfi", "sage") and rng.random() < 0.2:
        cfg["model"] = "river_bound"     # a real river classifier passed as `clf.predict_one`
        cfg["dynamic"] = rng.random() < 0.3
    if cfg.get("explainer") and kind != "tree" and rng.random() < 0.25:
        cfg["default_storage"] = True       # documented defaults: the explainer creates its own storage and imputer
    cfg.setdefault("dynamic", rng.random() < 0.6)
    cfg["alpha"] = rng.choice([0.001, 0.1, 0.5, 1.0])
    cfg["n_inner"] = rng.randint(1, 3)
    return cfg


def run_child(configs, mode, hashseed=None):
    fd, path = tempfile.mkstemp(prefix="simx_c18_", suffix=".json")
    try:
        with os.fdopen(fd, "w") as f:
            json.dump({"mode": mode, "configs": configs}, f)
        env = dict(os.environ)
        env["PYTHONHASHSEED"] = str(hashseed) if hashseed is not None else os.environ.get("VERIF_HASHSEED", "0")
        env["PYTHONPATH"] = child_pythonpath()
        p = subprocess.run([sys.executable, os.path.join(VERIF, "simx", "repro_child.py"), path],
                           capture_output=True, text=True, timeout=900, env=env, cwd=VERIF)
    finally:
        try:
            os.unlink(path)
        except OSError:
            pass
    for line in p.stdout.splitlines():
        if line.startswith("RESULT "):
            return json.loads(line[7:])
    raise RuntimeError("C18 child failed (exit %s): %s" % (p.returncode, (p.stdout + p.stderr)[-1500:]))


class C18Check(Check):
    prop = "C18"
    design_ref = "DESIGN.md section 4, C18"
    n_batches = {"quick": 10, "thorough": 300}
    rule = ("each run = a batch of replay configurations (explainer x storage x imputer incl. TreeStorage/TreeImputer, seed "
            "pair, stream) executed twice in fresh interpreters: A plain (one buffer dict refilled in place for observations not "
            "handed to the storage), B perturbed (library activity before seeding, heap churn + gc, every observation a "
            "distinct retained object, simulated clock with offset/skew/backward jumps, every second batch under another "
            "PYTHONHASHSEED); digests of storage contents and float.hex importance values, raw and normalised, compared "
            "after every operation; distinct = distinct digest histories")
    assumptions = ["every second batch runs replay B under another PYTHONHASHSEED (the default interpreter configuration draws "
                   "a fresh string-hash secret per start: entropy that is neither of the two global generators)",
                   "the worker-count perturbation of DESIGN.md is not applicable inside a single replay process"]
    wall_limit = {"quick": 900, "thorough": 4 * 3600}

    def n_runs(self, tier):
        return self.n_batches[tier]

    def gen(self, seed, tier, run_index):
        rng = seeds.run_rng(seed, self.prop, tier, run_index)
        plan = {"property": self.prop, "kind": "repro", "ops": [gen_config(rng, run_index, j) for j in range(BATCH)]}
        if run_index % 2 == 1:
            # the string-hash secret is drawn afresh by every interpreter start unless PYTHONHASHSEED pins it: it is a
            # source of entropy that is neither of the two global generators, so results must not depend on it either
            plan["hashseed_b"] = 1 + rng.randrange(2 ** 32 - 1)
        return plan

    def run(self, plan):
        configs = plan["ops"]
        a = run_child(configs, "A")
        b = run_child(configs, "B", plan.get("hashseed_b"))
        res = {"ok": True, "violation": None, "ops_run": 0, "aborted": None, "probes": {}, "faults_fired": {},
               "estimating_steps": 0, "extra": {}}
        probes = res["probes"]
        if plan.get("hashseed_b") is not None:
            probes["replay_B_under_another_string_hash_secret"] = 1
        import hashlib
        h = hashlib.blake2b(digest_size=16)
        for j, (cfg, ra, rb) in enumerate(zip(configs, a, b)):
            if "error" in ra or "error" in rb:
                probes["config_raised"] = probes.get("config_raised", 0) + 1
                if ("error" in ra) != ("error" in rb):
                    res["ok"] = False
                    res["violation"] = {"property": "C18", "oracle": "replay-outcome-differs", "op_index": j,
                                        "detail": "config %d: A %r, B %r" % (j, ra.get("error"), rb.get("error")),
                                        "cls": cfg["storage"]["kind"], "explainer": cfg.get("explainer")}
                    return res
                continue
            res["ops_run"] += len(ra["digests"])
            res["estimating_steps"] += len(ra["digests"])
            h.update(repr(ra["digests"]).encode())
            probes["clock_reads_in_B"] = probes.get("clock_reads_in_B", 0) + rb.get("clock_reads", 0)
            key = "replayed:%s:%s:%s" % (cfg["storage"]["kind"], cfg.get("explainer"), cfg.get("imputer"))
            probes[key] = probes.get(key, 0) + 1
            if ra["digests"] != rb["digests"]:
                first = next(i for i, (da, db) in enumerate(zip(ra["digests"], rb["digests"])) if da != db)
                res["ok"] = False
                res["violation"] = {
                    "property": "C18", "oracle": "replay-diverged", "op_index": j,
                    "detail": "config %d (%s storage, explainer %s, imputer %s, tree_seed %r): replays A and B with "
                              "identical seeds %r differ from operation %d of %d on"
                              % (j, cfg["storage"]["kind"], cfg.get("explainer"), cfg.get("imputer"),
                                 cfg["storage"].get("tree_seed", "n/a"), cfg["seeds"], first + 1, len(ra["digests"])),
                    "cls": cfg["storage"]["kind"], "explainer": cfg.get("explainer"),
                    "tree_seed_none": cfg["storage"]["kind"] == "tree" and cfg["storage"].get("tree_seed") is None}
                h.update(repr(("diverged", j, ra["digests"], rb["digests"])).encode())
                res["digest"] = None        # the divergence itself is not reproducible; the replay compares the signature
                res["history_digest"] = h.hexdigest()
                return res
        res["digest"] = h.hexdigest()
        return res

    # a divergence that stems from hidden entropy is itself random: no shrinking beyond isolating the configuration
    # (a candidate that "fails" once may pass the next time), and the replay is attempted up to three times
    max_minimise_tests = {"quick": 0, "thorough": 0}
    replay_attempts = 3

    def pre_minimize(self, plan, violation):
        j = violation.get("op_index")
        if j is None or not (0 <= j < len(plan["ops"])):
            return None
        p = copy.deepcopy(plan)
        p["ops"] = [plan["ops"][j]]        # configurations of a batch are independent replays
        return p

    def signature(self, violation):
        return (violation.get("oracle"), violation.get("cls"), violation.get("tree_seed_none"))

    def nontrivial(self, res):
        return res.get("ops_run", 0) > 0

    def sample_of(self, plan, res):
        return {"configs": plan["ops"][:2], "n_configs": len(plan["ops"])}

    def reductions(self, plan):
        out = []
        for j, cfg in enumerate(plan["ops"]):
            if cfg["T"] > 12:
                p = copy.deepcopy(plan)
                p["ops"][j]["T"] = max(12, cfg["T"] // 2)
                out.append(p)
        return out


CHECKS = [C18Check]

"""Plan minimisation: delta debugging over the operation list, then structural reductions.

`fails(plan) -> bool` must say whether the *same* oracle still fails.  Because every operation carries
its own entropy (per-op reseeding), dropping operations does not change what the others draw."""
import copy


def ddmin_ops(plan, fails, budget):
    ops = plan["ops"]
    n = 2
    while len(ops) >= 2 and budget[0] > 0:
        chunk = max(1, len(ops) // n)
        reduced = False
        i = 0
        while i < len(ops) and budget[0] > 0:
            cand_ops = ops[:i] + ops[i + chunk:]
            if not cand_ops:
                i += chunk
                continue
            cand = dict(plan)
            cand["ops"] = cand_ops
            budget[0] -= 1
            if fails(cand):
                ops = cand_ops
                plan = cand
                reduced = True
                n = max(n - 1, 2)
            else:
                i += chunk
        if not reduced:
            if chunk == 1:
                break
            n = min(len(ops), n * 2)
    plan = dict(plan)
    plan["ops"] = ops
    return plan


def truncate_after_failure(plan, fails, op_index):
    """Operations after the failing one are irrelevant (the executor stops at the first violation)."""
    if op_index is None or op_index < 0 or op_index + 1 >= len(plan["ops"]):
        return plan
    cand = dict(plan)
    cand["ops"] = plan["ops"][:op_index + 1]
    return cand if fails(cand) else plan


def minimize(plan, fails, reductions=None, max_tests=600, op_index=None):
    budget = [max_tests]
    plan = copy.deepcopy(plan)
    if "ops" in plan:
        plan = truncate_after_failure(plan, fails, op_index)
        plan = ddmin_ops(plan, fails, budget)
    if reductions:
        progress = True
        rounds = 0
        while progress and budget[0] > 0 and rounds < 6:
            progress = False
            rounds += 1
            for cand in reductions(plan):
                if budget[0] <= 0:
                    break
                budget[0] -= 1
                try:
                    ok = fails(cand)
                except Exception:  # noqa: BLE001 - an invalid candidate is simply rejected
                    ok = False
                if ok:
                    plan = cand
                    progress = True
                    break
        if "ops" in plan:
            plan = ddmin_ops(plan, fails, budget)
    plan["_minimise_tests"] = max_tests - budget[0]
    return plan

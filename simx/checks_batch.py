"""C05: batch / interval SAGE."""
from . import seeds
from .checks_explainers import ExplainerCheck
from .plan import gen_batch_plan
from .oracles.batch import C05Oracle


class C05Check(ExplainerCheck):
    prop = "C05"
    oracle_classes = (C05Oracle,)
    design_ref = "DESIGN.md section 4, C05"
    runs = {"quick": 2000, "thorough": 300000}

    def gen(self, seed, tier, run_index):
        rng = seeds.run_rng(seed, self.prop, tier, run_index)
        kinds = ["str", "int", "float", None]
        if run_index % 500 == 231:
            # more than a thousand explained rows (block-wise evaluation with a partial last block)
            return gen_batch_plan(rng, self.prop, huge=True, names_kind="str", classes=["batch"])
        if run_index % 40 == 29:
            from .plan import gen_long_interval_plan
            return gen_long_interval_plan(rng, self.prop, names_kind=kinds[run_index % 4])
        if run_index % 40 == 9:
            from .plan import gen_max_inner_plan
            return gen_max_inner_plan(rng, self.prop, names_kind=kinds[run_index % 4])
        big = run_index % 40 == 17
        if big:
            return gen_batch_plan(rng, self.prop, big=True, names_kind=kinds[run_index % 4], classes=["batch"])
        return gen_batch_plan(rng, self.prop, names_kind=kinds[run_index % 4])


CHECKS = [C05Check]

"""Plan executor for explainer worlds.

A plan is plain data: {"property", "config", "ops"}.  Executing it draws nothing from the private
generator, reads no clock and logs without side effects: replay is a pure function of the plan and the
code under test.
"""
import copy
import hashlib

from . import seams
from .world import World, snap


class Ctx:
    __slots__ = ("world", "i", "op", "e_index", "explainer", "ecfg", "x", "y", "x_before", "y_before",
                 "names_before", "outcome", "ret", "exc", "events", "pre", "rec")


def _digest_update(h, obj):
    h.update(repr(obj).encode())


def _scrub(events):
    """Events without object identities (the id() slot of SU is dropped) for digests."""
    out = []
    for e in events:
        if e[0] == "SU":
            out.append(e[:4])
        elif e[0] == "II" and len(e) > 6:
            out.append(e[:6] + ((e[6][0], e[6][2]) if e[6] else None,))
        elif e[0] == "IO" and len(e) > 3:
            out.append(e[:3])
        else:
            out.append(e)
    return out


def do_op(world, op, ctx):
    kind = op["op"]
    if kind == "explain":
        e = world.explainers[op["e"]]
        ecfg = world.ecfgs[op["e"]]
        if e is None:
            raise SkipOp("explainer was not constructed")
        x, y = world.row(op["tag"])
        ctx.e_index, ctx.explainer, ctx.ecfg = op["e"], e, ecfg
        ctx.x, ctx.y = x, y
        ctx.x_before, ctx.y_before = copy.deepcopy(x), copy.deepcopy(y)
        ctx.names_before = list(e.feature_names)
        kw = {}
        if "n_inner" in op:
            kw["n_inner_samples"] = op["n_inner"]
            if op.get("n_inner_type"):        # an integer of another type (NumPy) is still "n_inner_samples >= 1"
                import numpy as _np
                kw["n_inner_samples"] = getattr(_np, op["n_inner_type"])(op["n_inner"])
        cls = ecfg["cls"]
        if cls in ("pfi", "sage", "interval") and "us" in op:
            kw["update_storage"] = op["us"]
        if cls == "interval" and op.get("force"):
            kw["force_explain"] = True
        if cls == "batch" and op.get("original"):
            kw["original_sage"] = True
        if cls in ("batch", "interval"):
            kw["verbose"] = False
        return e.explain_one(x, y, **kw)
    if kind in ("many", "many_orig"):
        e = world.explainers[op["e"]]
        if e is None:
            raise SkipOp("explainer was not constructed")
        ctx.e_index, ctx.explainer, ctx.ecfg = op["e"], e, world.ecfgs[op["e"]]
        rows = [world.row(t) for t in op["tags"]]
        xs = [r[0] for r in rows]
        ys = [r[1] for r in rows]
        ctx.x, ctx.y = xs, ys
        ctx.x_before, ctx.y_before = copy.deepcopy(xs), copy.deepcopy(ys)
        kw = {"verbose": False}
        if "n_inner" in op:
            kw["n_inner_samples"] = op["n_inner"]
            if op.get("n_inner_type"):
                import numpy as _np
                kw["n_inner_samples"] = getattr(_np, op["n_inner_type"])(op["n_inner"])
        fn = e.explain_many if kind == "many" else e.explain_many_original
        return fn(xs, ys, **kw)
    if kind == "learn":
        world.model_fn.version += 1
        return None
    if kind == "store":
        x, y = world.row(op["tag"])
        ctx.x, ctx.y = x, y
        if "e" in op:      # through the explainer's public update_storage
            e = world.explainers[op["e"]]
            if e is None:
                raise SkipOp("explainer was not constructed")
            e.update_storage(x, y)
        else:
            world.storages[op["s"]].update(x, y)
        return None
    if kind == "observe":
        ctx.e_index = op["e"]
        ctx.explainer = world.explainers[op["e"]]
        ctx.ecfg = world.ecfgs[op["e"]]
        if ctx.explainer is None:
            raise SkipOp("explainer was not constructed")
        return None
    if kind == "construct":
        ctx.e_index = len(world.explainers)
        ctx.ecfg = op["ecfg"]
        e = world.add_explainer(op["ecfg"])
        ctx.explainer = e
        return None
    raise ValueError("unknown op %r" % kind)


class SkipOp(Exception):
    pass


def run_plan(plan, oracle_factory, collect=None):
    """Execute a plan; return a result dict.

    oracle_factory(world, plan) -> list of oracle objects with .after_op(ctx) -> None | violation dict and
    optionally .before_op(ctx), .finish(world).
    """
    cfg = plan["config"]
    rng_mode = cfg.get("rng", "perop")
    tape = seams.TAPE
    use_tape = rng_mode == "tape" or cfg.get("record_draws", False)
    h = hashlib.blake2b(digest_size=16)
    result = {"ok": True, "violation": None, "ops_run": 0, "aborted": None, "digest": None,
              "probes": {}, "faults_fired": {}, "estimating_steps": 0}
    try:
        if use_tape:
            tape.install()
            tape.begin_op(None, None)       # no spec/counters may leak in from an earlier run in this process
        seams.reseed(plan.get("rs0", 1))
        world = World(cfg)
        oracles = oracle_factory(world, plan)
        result["world"] = world
        for orc in oracles:
            v = getattr(orc, "after_build", lambda w: None)(world)
            if v:
                v.setdefault("op_index", -1)
                result["ok"] = False
                result["violation"] = v
                return result
        for i, op in enumerate(plan["ops"]):
            if rng_mode != "once" and "rs" in op:
                seams.reseed(op["rs"])
            rec = [] if use_tape else None
            if use_tape:
                tape.begin_op(op.get("tape") if rng_mode == "tape" else None, rec)
            ctx = Ctx()
            ctx.world, ctx.i, ctx.op = world, i, op
            ctx.e_index = ctx.explainer = ctx.ecfg = None
            ctx.x = ctx.y = ctx.x_before = ctx.y_before = ctx.names_before = None
            ctx.ret = ctx.exc = None
            ctx.pre = {}
            ctx.rec = rec
            world.begin_op(op.get("fault"))
            for orc in oracles:
                bo = getattr(orc, "before_op", None)
                if bo:
                    bo(ctx)
            try:
                ctx.ret = do_op(world, op, ctx)
                ctx.outcome = "ok"
            except SkipOp:
                ctx.outcome = "skip"
            except Exception as exc:  # noqa: BLE001 - everything the library raises is an observation
                ctx.outcome = "raise"
                ctx.exc = exc
            except BaseException as exc:  # noqa: BLE001
                if world.fired is None or not isinstance(exc, type(world.fired)):
                    raise                       # a real interrupt of the harness, not an injected one
                ctx.outcome = "raise"
                ctx.exc = exc
            ctx.events = world.events
            if world.fired is not None:
                result.setdefault("fired_ops", []).append(i)
                f = op.get("fault", {})
                key = "%s:%s" % (f.get("kind"), f.get("exc", "InjectedFault"))
                result["faults_fired"][key] = result["faults_fired"].get(key, 0) + 1
            _digest_update(h, (i, op.get("op"), ctx.outcome, type(ctx.exc).__name__, _scrub(ctx.events),
                               ctx.ret if ctx.outcome == "ok" else None))
            result["ops_run"] = i + 1
            if any(e[0] in ("M", "MB") for e in ctx.events):
                result["estimating_steps"] += 1
            for orc in oracles:
                v = orc.after_op(ctx)
                if v:
                    v.setdefault("op_index", i)
                    result["ok"] = False
                    result["violation"] = v
                    break
            if not result["ok"]:
                break
            if ctx.outcome == "raise" and world.fired is None and not op.get("expect_raise"):
                # the library raised on its own in a fault-free operation: not judged here (C15 judges
                # "every call succeeds"); the run cannot continue meaningfully.
                result["aborted"] = "%s: %s" % (type(ctx.exc).__name__, str(ctx.exc)[:120])
                result["aborted_at"] = i
                break
        if result["ok"] and not result["aborted"]:
            for orc in oracles:
                fin = getattr(orc, "finish", None)
                if fin:
                    v = fin(world)
                    if v:
                        v.setdefault("op_index", len(plan["ops"]) - 1)
                        result["ok"] = False
                        result["violation"] = v
                        break
        for orc in oracles:
            for k, n in getattr(orc, "probes", {}).items():
                result["probes"][k] = result["probes"].get(k, 0) + n
    finally:
        if use_tape:
            for k, n in tape.counts.items():
                result["probes"]["tape:" + k] = result["probes"].get("tape:" + k, 0) + n
            tape.counts = {}
            tape.remove()
    result["digest"] = h.hexdigest()
    return result

"""C06: imputers replace exactly the requested features with genuine background values.

World: a real storage, a real DefaultImputer / MarginalImputer (joint, product) around a recording stub model;
schedule: direct impute calls with every subset shape, interleaved with store operations by "another party"."""
import copy
import hashlib

from . import seams, seeds
from .driver import Check
from .plan import wchoice, gen_storage, gen_names
from .seeds import H
from .world import STORAGE_CLASSES, storage_kwargs, tuple_to_name

from ixai.imputer import MarginalImputer, DefaultImputer

SUBSET_TYPES = ["list", "tuple", "set", "frozenset", "keys", "gen", "iter"]


def gen_plan(rng, prop):
    d = wchoice(rng, [(1, 10), (2, 25), (3, 30), (4, 20), (5, 15)])
    names, nk = gen_names(rng, d)
    s = gen_storage(rng)
    kind = wchoice(rng, [("marginal-joint", 40), ("marginal-product", 40), ("default", 20)])
    cfg = {"names": names, "names_kind": nk, "storage": s, "imputer": kind, "seed": rng.getrandbits(32),
           "values": "unique" if rng.random() < 0.7 else "ties", "extra_keys": rng.random() < 0.3,
           "hetero": rng.random() < 0.25,
           "model": wchoice(rng, [("scalar", 60), ("multi", 40)]),
           "rng": wchoice(rng, [("perop", 50), ("tape", 35), ("once", 15)])}
    T = wchoice(rng, [(rng.randint(3, 10), 35), (rng.randint(10, 30), 45), (rng.randint(30, 60), 20)])
    ops = [{"op": "store", "tag": 1, "rs": rng.getrandbits(48)}]
    tag = 2
    if rng.random() < 0.08:
        # nothing stored yet: an empty subset needs no background, so the unperturbed prediction is still due
        ops = [{"op": "impute", "subset": [], "stype": rng.choice(SUBSET_TYPES), "xtag": 500 + k_,
                "n": rng.randint(1, 3), "rs": rng.getrandbits(48), "call": rng.choice(["pos", "kw"]), "empty_storage": True}
               for k_ in range(rng.randint(1, 2))] + ops
    while len(ops) < T:
        if rng.random() < 0.4:
            op = {"op": "store", "tag": tag, "rs": rng.getrandbits(48)}
            if rng.random() < 0.15:
                op["same_object"] = True       # the caller hands over the very same dict object as last time
            ops.append(op)
            tag += 1
        else:
            shape = wchoice(rng, [("random", 60), ("empty", 15), ("full", 15), ("single", 10)])
            idx = list(range(d))
            rng.shuffle(idx)
            if shape == "empty":
                sub = []
            elif shape == "full":
                sub = idx
            elif shape == "single":
                sub = idx[:1]
            else:
                sub = idx[:rng.randint(1, d)]
            op = {"op": "impute", "subset": sub, "stype": rng.choice(SUBSET_TYPES), "xtag": 500 + tag,
                  "n": wchoice(rng, [(1, 40), (2, 25), (3, 15), (5, 20)]), "rs": rng.getrandbits(48),
                  "call": rng.choice(["pos", "kw"])}
            if rng.random() < 0.1:
                op["xtag"] = rng.randint(1, max(1, tag - 1))     # explain a row that is itself stored
            if rng.random() < 0.06:
                # many samples, the count given as a narrow NumPy integer
                op["n"], op["n_type"] = rng.choice([(50, "int8"), (100, "uint8"), (60, "int8"), (7, "int64")])
            if cfg["rng"] == "tape":
                op["tape"] = {"r": [rng.choice(["first", "last", "real"]) for _ in range(rng.randint(1, 3))]}
            ops.append(op)
    return {"property": prop, "kind": "imputer", "config": cfg, "ops": ops, "rs0": rng.getrandbits(48)}


def run_imputer_plan(plan):
    cfg = plan["config"]
    names = [tuple_to_name(n) for n in cfg["names"]]
    d = len(names)
    tape = seams.TAPE
    mode = cfg.get("rng", "perop")
    use_tape = mode == "tape"
    h = hashlib.blake2b(digest_size=16)
    res = {"ok": True, "violation": None, "ops_run": 0, "aborted": None, "probes": {}, "faults_fired": {},
           "estimating_steps": 0}
    probes = res["probes"]
    seed = cfg["seed"]

    def probe(name, n=1):
        probes[name] = probes.get(name, 0) + n

    def viol(oracle, detail, i):
        res["ok"] = False
        res["violation"] = {"property": "C06", "oracle": oracle, "detail": detail, "op_index": i, "cls": cfg["imputer"]}
        return res

    def row(tag):
        x = {}
        for j, nme in enumerate(names):
            x[nme] = tag * 8 + j + 1 if cfg["values"] == "unique" else H(seed, "x", tag, j) % 3
        if cfg.get("extra_keys"):
            x["__extra__"] = tag * 8
        if cfg.get("hetero"):
            # observations of a stream need not all carry the same optional keys, nor in the same order
            if H(seed, "opt", tag) % 3 == 0:
                x["__opt__"] = tag * 8 + 7
            if H(seed, "ord", tag) % 2:
                x = dict(reversed(list(x.items())))
        return x

    events = []

    def model_fn(x):
        key = tuple((repr(k), v) for k, v in x.items())
        if cfg["model"] == "multi":
            return {"L0": H(seed, "m0", key) % 7, "L1": H(seed, "m1", key) % 7}
        return {"output": H(seed, "m", key) % 11}

    def model(x):
        if not isinstance(x, dict):
            outs = [model_fn(r) for r in x]
            events.append(("MB", [dict(r) for r in x], outs))
            return outs
        out = model_fn(x)
        events.append(("M", dict(x), dict(out)))
        return out

    # configured defaults include falsy values (0, 0.0, False): "the configured default" must be used whatever it is
    falsy = [0, 0.0, False]
    last_stored = None
    defaults = {nme: (falsy[H(seed, "dflt", j) % 3] if H(seed, "dflt?", j) % 3 == 0 else -(j + 1))
                for j, nme in enumerate(names)}
    try:
        if use_tape:
            tape.install()
            tape.begin_op(None, None)
        seams.reseed(plan.get("rs0", 1))
        scfg = cfg["storage"]
        storage = STORAGE_CLASSES[scfg["kind"]](**storage_kwargs(scfg))
        kind = cfg["imputer"]
        if kind == "default":
            imputer = DefaultImputer(model, dict(defaults))
        else:
            imputer = MarginalImputer(model, kind.split("-")[1], storage)
        for i, op in enumerate(plan["ops"]):
            if mode != "once":
                seams.reseed(op["rs"])
            if use_tape:
                tape.begin_op(op.get("tape"), None)
            del events[:]
            if op["op"] == "store":
                if op.get("same_object") and last_stored is not None:
                    storage.update(last_stored, ("y", op["tag"]))
                    probe("same_object_stored_again")
                else:
                    last_stored = row(op["tag"])
                    storage.update(last_stored, ("y", op["tag"]))
                res["ops_run"] = i + 1
                continue
            x = row(op["xtag"])
            x_before = dict(x)
            sub_names = [names[j] for j in op["subset"]]
            st = op["stype"]
            if st == "list":
                subset = list(sub_names)
            elif st == "tuple":
                subset = tuple(sub_names)
            elif st == "set":
                subset = set(sub_names)
            elif st == "frozenset":
                subset = frozenset(sub_names)
            elif st == "gen":            # "any iterable": a generator can be walked once only
                subset = (f_ for f_ in list(sub_names))
            elif st == "iter":
                subset = iter(list(sub_names))
            else:
                holder = dict.fromkeys(sub_names)
                subset = holder.keys()
            one_shot = st in ("gen", "iter")
            if one_shot:
                probe("one_shot_iterable_subset")
            subset_before = list(sub_names) if one_shot else list(subset)
            data = storage.get_data()
            rows_before = list(data[0])
            rows_ids = [id(r) for r in rows_before]
            rows_copy = [dict(r) for r in rows_before]
            ys_before = list(data[1])
            n = op["n"]
            n_arg = getattr(__import__("numpy"), op["n_type"])(n) if op.get("n_type") else n
            try:
                if op.get("call") == "kw":
                    preds = imputer.impute(feature_subset=subset, x_i=x, n_samples=n_arg)
                else:
                    preds = imputer.impute(subset, x, n_arg)
            except Exception as exc:  # noqa: BLE001
                if not sub_names:
                    # an empty subset needs nothing from the background: the unperturbed prediction is due whatever
                    # the storage holds (a non-empty subset on an empty storage cannot be served: abort, no verdict)
                    return viol("empty-subset-raised", "impute of an empty subset raised %s: %s (storage holds %d rows)"
                                % (type(exc).__name__, str(exc)[:80], len(rows_copy)), i)
                res["aborted"] = "%s: %s" % (type(exc).__name__, str(exc)[:100])
                break
            res["ops_run"] = i + 1
            res["estimating_steps"] += 1
            h.update(repr((i, op["subset"], st, n, events, preds)).encode())
            S = sub_names
            ms = [e for e in events if e[0] == "M"]
            if any(e[0] == "MB" for e in events):
                return viol("batch-evaluation", "imputer evaluated the model on a list of instances", i)
            # return value
            if not isinstance(preds, list) or len(preds) != n:
                return viol("prediction-count", "impute returned %r predictions, n_samples=%d"
                            % (len(preds) if hasattr(preds, "__len__") else preds, n), i)
            if not ms:
                return viol("no-model-evaluation", "impute made no model evaluation", i)
            outs = [e[2] for e in ms]
            # how many evaluations produce the n predictions is not part of the property (C15 states the budget)
            if True:
                for j in range(n):
                    if not any(preds[j] == o for o in outs):
                        return viol("prediction-not-model-output", "prediction %d = %r is not an output of the model on an "
                                    "evaluated input %r" % (j, preds[j], outs), i)
            if not S:
                want = model_fn(x_before)
                probe("empty_subset")
                if not rows_copy:
                    probe("empty_subset_on_empty_storage")
                for j in range(n):
                    if preds[j] != want:
                        return viol("empty-subset", "prediction %r for an empty subset, unperturbed prediction %r"
                                    % (preds[j], want), i)
            if len(S) == d:
                probe("full_subset")
            # every model input
            for e in ms:
                inp = e[1]
                if set(inp.keys()) != set(x_before.keys()):
                    return viol("input-keys", "model input keys %r, instance keys %r" % (list(inp), list(x_before)), i)
                for f in x_before:
                    if not any(f == s for s in S) and inp[f] != x_before[f]:
                        return viol("outside-subset-changed", "feature %r outside the subset %r: instance %r, model input %r"
                                    % (f, S, x_before[f], inp[f]), i)
                if kind == "default":
                    for f in S:
                        if inp[f] != defaults[f] or type(inp[f]) is not type(defaults[f]):
                            return viol("not-the-default", "feature %r: model input %r, configured default %r"
                                        % (f, inp[f], defaults[f]), i)
                elif kind == "marginal-joint":
                    if S and not any(all(f in r and inp[f] == r[f] for f in S) for r in rows_copy):
                        return viol("joint-not-one-row", "imputed values %r are not those of one stored row (rows %r)"
                                    % ({f: inp[f] for f in S}, rows_copy), i)
                    if S:
                        src = [ri for ri, r in enumerate(rows_copy) if all(f in r and inp[f] == r[f] for f in S)]
                        if src == [0]:
                            probe("first_row_sampled")
                        if src == [len(rows_copy) - 1]:
                            probe("last_row_sampled")
                else:
                    for f in S:
                        if not any(f in r and inp[f] == r[f] for r in rows_copy):
                            return viol("value-not-stored", "feature %r imputed with %r which no stored row has (%r)"
                                        % (f, inp[f], [r.get(f) for r in rows_copy]), i)
                    if len(S) >= 2 and cfg["values"] == "unique":
                        srcs = {(inp[f] - 1) // 8 for f in S}
                        probe("product_mixed_rows" if len(srcs) > 1 else "product_same_row")
                if S and cfg["values"] == "unique" and any(inp[f] != x_before[f] for f in S):
                    probe("replaced_with_other_value")
            # nothing modified
            if x != x_before or list(x.keys()) != list(x_before.keys()):
                return viol("instance-modified", "instance %r -> %r" % (x_before, x), i)
            if not one_shot:
                if list(subset) != subset_before and set(map(repr, subset)) != set(map(repr, subset_before)):
                    return viol("subset-modified", "subset %r -> %r" % (subset_before, list(subset)), i)
                if len(list(subset)) != len(subset_before):
                    return viol("subset-modified", "subset %r -> %r" % (subset_before, list(subset)), i)
            data2 = storage.get_data()
            rows_after = list(data2[0])
            if [id(r) for r in rows_after] != rows_ids or rows_after != rows_copy or list(data2[1]) != ys_before:
                return viol("storage-modified", "storage content changed during impute: %r -> %r" % (rows_copy, rows_after), i)
            probe("impute_checked")
    finally:
        if use_tape:
            for k, n_ in tape.counts.items():
                probes["tape:" + k] = probes.get("tape:" + k, 0) + n_
            tape.counts = {}
            tape.remove()
    res["digest"] = h.hexdigest()
    return res


class C06Check(Check):
    prop = "C06"
    design_ref = "DESIGN.md section 4, C06"
    runs = {"quick": 3000, "thorough": 1500000}
    rule = ("plans = (feature names of every type, storage kind/capacity, imputer kind, subset shape and container type, "
            "n_samples, store operations interleaved with impute calls, RNG mode incl. first/last-row adversary tape); "
            "non-trivial = at least one impute call judged; distinct = digest of (subsets, model inputs, predictions)")
    assumptions = ["a one-shot iterator given as the subset is consumed by the call; 'never modifies the subset' is judged for re-iterable containers only",
                   "DefaultImputer may evaluate the model fewer than n_samples times (it returns the same prediction n times)"]

    def n_runs(self, tier):
        return self.runs[tier]

    def gen(self, seed, tier, run_index):
        rng = seeds.run_rng(seed, self.prop, tier, run_index)
        if run_index % 4 == 3:       # indirectly: the imputer calls made by the explainers
            from .plan import gen_explainer_plan, gen_batch_plan
            if run_index % 8 == 7:
                return gen_batch_plan(rng, self.prop)
            return gen_explainer_plan(rng, self.prop, "mixed")
        return gen_plan(rng, self.prop)

    def run(self, plan):
        if plan.get("kind") == "explainer":
            from .execute import run_plan
            from .oracles.explainers import C06InExplainerOracle
            res = run_plan(plan, lambda world, p: [C06InExplainerOracle(world, p)])
            res.pop("world", None)
            return res
        return run_imputer_plan(plan)

    def nontrivial(self, res):
        return res.get("estimating_steps", 0) > 0

    def reductions(self, plan):
        out = []
        if plan.get("kind") == "explainer":
            from .checks_explainers import ExplainerCheck
            return ExplainerCheck.reductions(self, plan)
        cfg = plan["config"]
        if cfg.get("rng") != "perop":
            p = copy.deepcopy(plan)
            p["config"]["rng"] = "perop"
            for op in p["ops"]:
                op.pop("tape", None)
            out.append(p)
        if cfg.get("extra_keys"):
            p = copy.deepcopy(plan)
            p["config"]["extra_keys"] = False
            out.append(p)
        for i, op in enumerate(plan["ops"]):
            if op["op"] == "impute":
                if op["n"] > 1:
                    p = copy.deepcopy(plan)
                    p["ops"][i]["n"] = 1
                    out.append(p)
                if op["stype"] != "list":
                    p = copy.deepcopy(plan)
                    p["ops"][i]["stype"] = "list"
                    out.append(p)
        return out


CHECKS = [C06Check]

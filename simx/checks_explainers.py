"""Checks over explainer worlds: C01, C02, C03 (C15, C16, C17 are added in their own modules)."""
import copy

from . import seeds
from .driver import Check
from .execute import run_plan
from .plan import gen_explainer_plan
from .oracles.explainers import C01Oracle, C02Oracle, C03Oracle


def plan_summary(plan, res=None):
    cfg = plan["config"]
    s = {"config": cfg, "ops": plan["ops"][:12], "n_ops": len(plan["ops"])}
    return s


class ExplainerCheck(Check):
    focus = "mixed"
    oracle_classes = ()
    runs = {"quick": 2400, "thorough": 120000}
    rule = ("plans = (swarm configuration, operation schedule) drawn from sha256(VERIF_SEED, property, tier, run_index); "
            "a run is non-trivial when at least one estimating step (model evaluation) happened; distinct = distinct "
            "digest of the full seam history (operations, every model/loss/imputer/storage call with arguments and "
            "results, outcomes)")
    assumptions = ["river, NumPy and CPython are trusted as installed",
                   "stub models/losses are deterministic functions of their inputs and the model version",
                   "float worlds compare with tolerance 64*eps*(d+2)*max(T+2,1/alpha)*max(1,|loss|max); exact worlds with =="]

    def n_runs(self, tier):
        return self.runs[tier]

    def gen(self, seed, tier, run_index):
        rng = seeds.run_rng(seed, self.prop, tier, run_index)
        # long-history / larger-d stratum: 4 % of the thorough runs, 2 % of the quick ones
        long = run_index % 25 == 7 if tier == "thorough" else run_index % 50 == 7
        return gen_explainer_plan(rng, self.prop, self.focus, long=long)

    def factory(self, world, plan):
        return [c(world, plan) for c in self.oracle_classes]

    def run(self, plan):
        res = run_plan(plan, self.factory)
        res.pop("world", None)
        return res

    def sample_of(self, plan, res):
        return plan_summary(plan, res)

    def reductions(self, plan):
        """Structural reductions: simpler configuration while the same oracle keeps failing."""
        cfg = plan["config"]
        out = []

        def variant(mut):
            p = copy.deepcopy(plan)
            try:
                mut(p)
            except Exception:  # noqa: BLE001
                return
            out.append(p)

        # drop explainers that no operation uses / keep only one
        used = sorted({op["e"] for op in plan["ops"] if "e" in op})
        if len(cfg["explainers"]) > len(used) and used:
            def keep_used(p):
                remap = {old: new for new, old in enumerate(used)}
                p["config"]["explainers"] = [p["config"]["explainers"][k] for k in used]
                for op in p["ops"]:
                    if "e" in op:
                        op["e"] = remap[op["e"]]
            variant(keep_used)
        if cfg.get("rng") != "perop":
            variant(lambda p: (p["config"].__setitem__("rng", "perop"),
                               [op.pop("tape", None) for op in p["ops"]]))
        for k, e in enumerate(cfg["explainers"]):
            if e.get("n_inner", 1) != 1:
                variant(lambda p, k=k: p["config"]["explainers"][k].__setitem__("n_inner", 1))
            if e.get("positional"):
                variant(lambda p, k=k: p["config"]["explainers"][k].pop("positional"))
        for op_i, op in enumerate(plan["ops"]):
            if "n_inner" in op:
                variant(lambda p, i=op_i: p["ops"][i].pop("n_inner"))
        if cfg["model"].get("style"):
            variant(lambda p: p["config"]["model"].pop("style"))
        if cfg["model"]["family"] not in ("linear", "multi", "riverlabel", "zerosum"):
            variant(lambda p: p["config"]["model"].__setitem__("family", "linear"))
        if cfg["model"].get("ignore"):
            variant(lambda p: p["config"]["model"].pop("ignore"))
        if cfg["loss"].get("sig", "pos") != "pos":
            variant(lambda p: p["config"]["loss"].__setitem__("sig", "pos"))
        if cfg["loss"]["family"] != "sq":
            variant(lambda p: p["config"]["loss"].__setitem__("family", "sq"))
        if cfg.get("values") != "unique":
            variant(lambda p: p["config"].__setitem__("values", "unique"))
        for s_i, s in enumerate(cfg["storages"]):
            if s.get("size", 1) > 1:
                variant(lambda p, i=s_i: p["config"]["storages"][i].__setitem__("size", 1))
            if s["kind"] != "batch":
                variant(lambda p, i=s_i: p["config"]["storages"].__setitem__(i, {"kind": "batch"}))
        # drop the last feature everywhere
        if len(cfg["names"]) > 1:
            def drop_feature(p):
                c = p["config"]
                c["names"] = c["names"][:-1]
                d = len(c["names"])
                if c["model"].get("ignore"):
                    c["model"]["ignore"] = [j for j in c["model"]["ignore"] if j < d]
            variant(drop_feature)
        return out


class C01Check(ExplainerCheck):
    prop = "C01"
    focus = "sage"
    oracle_classes = (C01Oracle,)
    design_ref = "DESIGN.md section 4, C01"

    def gen(self, seed, tier, run_index):
        if run_index % 16 == 15:
            # "whatever the imputer, storage": a deployment on the real TreeStorage / TreeImputer with drifting data
            from .checks_tree import gen_plan as gen_tree_plan
            rng = seeds.run_rng(seed, self.prop + "/tree", tier, run_index)
            plan = gen_tree_plan(rng, self.prop)
            plan["config"]["explainer"] = "sage"
            for op in plan["ops"]:
                if op["op"] == "update" and op["t"] > 8 and op["t"] % 2 == 0:
                    op["op"] = "explain"
            return plan
        plan = super().gen(seed, tier, run_index)
        cfg = plan["config"]
        if cfg.get("arith") in ("float", "npfloat") and cfg["loss"]["family"] in ("sq", "abs", "lin") and run_index % 3 == 0:
            # "whatever the loss": a loss that is discontinuous everywhere, on floating-point predictions.  The identity
            # needs no reference here (both sides come from the explainer), so it must survive: the last link of the
            # chain has to be the model loss itself, not the loss of a prediction one rounding away from the model's.
            cfg["loss"]["family"] = "hash"
            cfg["loss"].pop("scale_exp", None)
            cfg["discontinuous_float_loss"] = True
        elif cfg.get("arith") == "float" and cfg["loss"]["family"] in ("sq", "abs", "lin") and run_index % 3 == 1 \
                and all(e["cls"] in ("sage", "pfi") for e in cfg["explainers"]):
            # loss values "treated as arbitrary reals" whatever scalar type carries them: zero-one losses as np.uint8
            # (0 - 1 wraps to 255 in that type) or np.bool_ (for which `-` is not defined)
            cfg["loss"]["family"] = "npuint8" if (run_index // 3) % 2 else "npbool"
            cfg["loss"].pop("scale_exp", None)
            cfg["discontinuous_float_loss"] = True
        return plan

    def run(self, plan):
        if plan.get("kind") == "tree":
            from .checks_tree import run_tree_plan
            res = run_tree_plan(plan, c01=True)
            if not res["ok"] and res["violation"].get("property") != "C01":
                # a TreeStorage / TreeImputer problem is C19's to report
                res = dict(res, ok=True, violation=None, aborted="foreign: " + res["violation"]["oracle"])
            return res
        return super().run(plan)

    def reductions(self, plan):
        if plan.get("kind") == "tree":
            return []
        return super().reductions(plan)

    def sample_of(self, plan, res):
        if plan.get("kind") == "tree":
            return {"config": plan["config"], "n_ops": len(plan["ops"])}
        return super().sample_of(plan, res)


class C02Check(ExplainerCheck):
    prop = "C02"
    focus = "pfi"
    runs = {"quick": 2400, "thorough": 250000}
    oracle_classes = (C02Oracle,)
    design_ref = "DESIGN.md section 4, C02"


class C03Check(ExplainerCheck):
    prop = "C03"
    focus = "sage"
    oracle_classes = (C03Oracle,)
    design_ref = "DESIGN.md section 4, C03"

"""Check driver: seeded search over plans in a fork pool, violation grouping, minimisation, replay
verification in a fresh interpreter, known-findings matching, evidence.

Exit codes: 0 property held on everything explored; 1 VIOLATION printed; 3 harness error."""
import copy
import hashlib
import json
import multiprocessing
import os
import signal
import subprocess
import sys
import time
import traceback
from concurrent.futures import ProcessPoolExecutor

from . import seeds
from .minimize import minimize

VERIF = os.path.dirname(os.path.dirname(os.path.abspath(__file__)))
REPLAYS = os.environ.get("VERIF_REPLAY_DIR") or os.path.join(VERIF, "replays")
EVIDENCE = os.environ.get("VERIF_EVIDENCE_DIR") or os.path.join(VERIF, "evidence")


def child_pythonpath():
    """PYTHONPATH for child interpreters: /verif, preceded by the repository copy under test when the selftest
    points the checks at a scratch copy (VERIF_REPO); /repo itself is found through the venv's egg-link."""
    repo = os.environ.get("VERIF_REPO")
    if repo and os.path.realpath(repo) != os.path.realpath("/repo"):
        return repo + os.pathsep + VERIF
    return VERIF
FINDINGS = os.path.join(VERIF, "known_findings.json")

REAL_STUB = {
    "real_code": ["ixai explainers (IncrementalPFI, IncrementalSage, BatchSage, IntervalSage)",
                  "ixai storages", "ixai imputers", "ixai trackers", "ixai validators",
                  "ixai RiverWrapper / RiverMetricToLossFunction", "river metrics and Hoeffding trees (where involved)",
                  "CPython random / numpy.random generators (seeded; biased by the adversary tape in tape mode)"],
    "stubs": ["data stream (rows derived from integer tags)", "model functions (deterministic families, versioned for learning)",
              "plain loss functions", "user-style stub imputer (arbitrary predictions for non-empty subsets)"],
}


class Check:
    """Base class of a property check.  Subclasses define plan generation and execution."""
    prop = "?"
    level = "exploration"
    design_ref = ""
    rule = ""
    assumptions = []
    wall_limit = {"quick": 600, "thorough": 3 * 3600}

    def n_runs(self, tier):
        raise NotImplementedError

    def gen(self, seed, tier, run_index):
        raise NotImplementedError

    def run(self, plan):
        """-> result dict with keys ok, violation, digest, probes, ops_run, aborted, faults_fired, trace_key"""
        raise NotImplementedError

    def reductions(self, plan):
        return []

    def nontrivial(self, res):
        return res.get("estimating_steps", 0) > 0

    def sample_of(self, plan, res):
        return plan

    def signature(self, violation):
        """Grouping key for violations (one minimised replay per group)."""
        return (violation.get("oracle"), violation.get("cls"), violation.get("exc"), violation.get("mode"),
                violation.get("fault_kind"), violation.get("where"))

    def extra_evidence(self, merged):
        return {}

    max_minimise_tests = {"quick": 400, "thorough": 1500}
    replay_attempts = 1        # C18 overrides: a reproducibility violation is itself non-deterministic

    def pre_minimize(self, plan, violation):
        """Optional shortcut: a smaller plan to try before generic minimisation (must be re-validated)."""
        return None


# ----------------------------------------------------------------------------------------------

_CHECK = None


def _worker(args):
    """Runs a chunk of run indices; returns an aggregate (memory stays bounded for millions of runs) plus the
    records of violating runs, harness errors and the first samples."""
    seed, tier, indices = args
    check = _CHECK
    agg = {"n": 0, "probes": {}, "faults": {}, "aborted": {}, "digests": set(), "ops": 0, "est": 0,
           "violations": [], "samples": [], "extras": [], "harness_errors": [], "foreign": 0, "digest_list": []}
    keep_list = bool(os.environ.get("SIMX_KEEP_DIGEST_LIST"))
    for idx in indices:
        plan = check.gen(seed, tier, idx)
        try:
            res = check.run(plan)
        except Exception:  # noqa: BLE001  harness exception: reported apart from violations
            agg["harness_errors"].append({"idx": idx, "harness_error": traceback.format_exc()[-1500:]})
            continue
        agg["n"] += 1
        for k, v in res.get("probes", {}).items():
            agg["probes"][k] = agg["probes"].get(k, 0) + v
        for k, v in res.get("faults_fired", {}).items():
            agg["faults"][k] = agg["faults"].get(k, 0) + v
        agg["ops"] += res.get("ops_run", 0)
        agg["est"] += res.get("estimating_steps", 0)
        if res.get("aborted"):
            key = res["aborted"][:70]
            agg["aborted"][key] = agg["aborted"].get(key, 0) + 1
        dg = res.get("digest") or res.get("history_digest")
        if dg and check.nontrivial(res):
            agg["digests"].add(int(dg[:16], 16))
        if keep_list:
            agg["digest_list"].append([idx, dg, res["ok"], res.get("aborted"), res.get("ops_run", 0)])
        if res.get("extra") is not None:
            agg["extras"].append(res["extra"])
        if not res["ok"]:
            if res["violation"].get("oracle") == "__foreign__":
                agg["foreign"] += 1
            else:
                agg["violations"].append({"idx": idx, "violation": res["violation"]})
        if idx < 3:
            agg["samples"].append((idx, check.sample_of(plan, res)))
    return agg


def _kill_children(ex):
    try:
        for p in list(getattr(ex, "_processes", {}).values()):
            try:
                p.kill()
            except Exception:  # noqa: BLE001
                pass
    except Exception:  # noqa: BLE001
        pass


def harness_error(msg):
    sys.stdout.flush()
    print("HARNESS-ERROR: %s" % msg)
    sys.stdout.flush()
    os._exit(3)


def load_findings():
    try:
        with open(FINDINGS) as f:
            return json.load(f)
    except FileNotFoundError:
        return {"known": [], "fixed": []}


def _lookup(obj, path):
    cur = obj
    for part in path.split("."):
        if isinstance(cur, list):
            try:
                cur = cur[int(part)]
            except (ValueError, IndexError):
                return None
        elif isinstance(cur, dict):
            if part not in cur:
                return None
            cur = cur[part]
        else:
            return None
    return cur


def match_known(findings, prop, replay):
    """A known finding matches when every key of its signature equals the value in the replay record."""
    for k in findings.get("known", []):
        if k.get("property") != prop:
            continue
        sig = k.get("signature", {})
        if sig and all(_lookup(replay, path) == want for path, want in sig.items()):
            return k
    return None


def write_json(path, obj):
    tmp = path + ".tmp"
    with open(tmp, "w") as f:
        json.dump(obj, f, indent=1, default=_json_default)
        f.write("\n")
    os.replace(tmp, path)


def _json_default(o):
    try:
        from .exact import Exact
        if isinstance(o, Exact):
            return repr(o)
    except Exception:  # noqa: BLE001
        pass
    try:
        import numpy as np
        if isinstance(o, np.generic):
            return o.item()
    except Exception:  # noqa: BLE001
        pass
    if isinstance(o, (set, frozenset, tuple)):
        return list(o)
    return repr(o)


def validate_evidence(ev):
    """Minimal structural validation against EVIDENCE.schema.json (generic keys)."""
    for k in ("property_id", "tier", "seed", "level", "coverage", "wall_s"):
        if k not in ev:
            return "missing %s" % k
    if ev["tier"] not in ("quick", "thorough"):
        return "bad tier"
    if not isinstance(ev["seed"], int):
        return "seed not int"
    cov = ev["coverage"]
    for k in ("evaluations", "distinct_nontrivial", "rule", "samples"):
        if k not in cov:
            return "coverage missing %s" % k
    if not isinstance(cov["evaluations"], int) or cov["evaluations"] < 1:
        return "evaluations < 1"
    if not isinstance(cov["distinct_nontrivial"], int) or cov["distinct_nontrivial"] < 2:
        return "distinct_nontrivial < 2"
    if not isinstance(cov["samples"], list) or len(cov["samples"]) < 1:
        return "no samples"
    return None


def run_replay_subprocess(path, attempts=1):
    """Replay in a fresh interpreter; returns (reproduced, output)."""
    out = ""
    for _ in range(max(1, attempts)):
        ok, out = _run_replay_once(path)
        if ok:
            return True, out
    return False, out


def _run_replay_once(path):
    env = dict(os.environ)
    env["PYTHONHASHSEED"] = os.environ.get("VERIF_HASHSEED", "0")
    env["PYTHONPATH"] = child_pythonpath()
    try:
        p = subprocess.run([sys.executable, os.path.join(VERIF, "simx", "main.py"), "--replay", path],
                           capture_output=True, text=True, timeout=600, env=env, cwd=VERIF)
    except subprocess.TimeoutExpired:
        return False, "replay timed out"
    return p.returncode == 1 and "REPRODUCED" in p.stdout, (p.stdout + p.stderr)[-2000:]


def run_check(check, tier, workers=None):
    global _CHECK
    _CHECK = check
    t0 = time.time()
    seed = seeds.verif_seed()
    prop = check.prop
    print("check %s tier=%s VERIF_SEED=%d" % (prop, tier, seed))
    sys.stdout.flush()
    limit = check.wall_limit.get(tier, 600)
    workers = workers or int(os.environ.get("VERIF_WORKERS", "0")) or min(16, os.cpu_count() or 1)
    n = check.n_runs(tier)
    chunk = max(1, min(64, n // (workers * 6) or 1))
    tasks = [(seed, tier, list(range(i, min(n, i + chunk)))) for i in range(0, n, chunk)]
    aggs = []
    ctx = multiprocessing.get_context("fork")
    ex = ProcessPoolExecutor(max_workers=workers, mp_context=ctx)

    def on_alarm(signum, frame):
        _kill_children(ex)
        harness_error("wall limit of %ds exceeded in check %s (%s)" % (limit, prop, tier))

    signal.signal(signal.SIGALRM, on_alarm)
    signal.alarm(int(limit))
    try:
        for out in ex.map(_worker, tasks):
            aggs.append(out)
    except Exception:  # noqa: BLE001
        _kill_children(ex)
        harness_error("worker pool failed: %s" % traceback.format_exc()[-800:])
    ex.shutdown()
    herr = [h for a in aggs for h in a["harness_errors"]]
    if herr:
        herr.sort(key=lambda r: r["idx"])
        harness_error("exception in the harness at run %d:\n%s" % (herr[0]["idx"], herr[0]["harness_error"]))

    # ---- merge (chunks arrive in run-index order, so the outcome does not depend on the worker count) ------
    probes, faults, aborted = {}, {}, {}
    digests = set()
    ops = est = 0
    samples = []
    foreign = 0
    viol = []
    extras = []
    n_records = 0
    for a in aggs:
        n_records += a["n"]
        for k, v in a["probes"].items():
            probes[k] = probes.get(k, 0) + v
        for k, v in a["faults"].items():
            faults[k] = faults.get(k, 0) + v
        for k, v in a["aborted"].items():
            aborted[k] = aborted.get(k, 0) + v
        digests |= a["digests"]
        ops += a["ops"]
        est += a["est"]
        foreign += a["foreign"]
        viol.extend(a["violations"])
        extras.extend(a["extras"])
        samples.extend(a["samples"])
    viol.sort(key=lambda r: r["idx"])
    samples = [s_ for _, s_ in sorted(samples, key=lambda t: t[0])]
    merged = {"extras": extras, "probes": probes, "faults": faults}

    # ---- violations: group, minimise, replay-verify, match known findings ---------------------
    findings = load_findings()
    groups = {}
    for r in viol:
        groups.setdefault(check.signature(r["violation"]), []).append(r)
    reported = []
    known_lines = []
    exit_code = 0
    os.makedirs(REPLAYS, exist_ok=True)
    unreplayable = []
    replay_budget = [getattr(check, "replay_budget", 24)]
    for sig, rs in sorted(groups.items(), key=lambda kv: kv[1][0]["idx"])[:8]:
        done = False
        last_out = ""
        for r in rs[:getattr(check, "group_tries", 6)]:   # a violation that does not replay is never reported: try other runs of the group
            if replay_budget[0] <= 0:
                break
            replay_budget[0] -= 1
            plan = check.gen(seed, tier, r["idx"])
            orig_ops = len(plan.get("ops", []))

            def fails(p, _sig=sig):
                res_ = check.run(p)
                return (not res_["ok"]) and check.signature(res_["violation"]) == _sig

            try:
                viol_r = r["violation"]
                short = check.pre_minimize(plan, viol_r)
                if short is not None and fails(short):
                    plan = short
                    viol_r = dict(viol_r, op_index=None)
                mplan = minimize(plan, fails, check.reductions, max_tests=check.max_minimise_tests[tier],
                                 op_index=viol_r.get("op_index"))
                for _attempt in range(max(1, check.replay_attempts)):
                    res = check.run(mplan)
                    if not res["ok"]:
                        break
            except Exception:  # noqa: BLE001
                harness_error("minimiser failed: %s" % traceback.format_exc()[-800:])
            if res["ok"]:
                last_out = "minimised plan of run %d does not fail any more" % r["idx"]
                continue
            replay = {"property": prop, "tier": tier, "seed": seed, "run_index": r["idx"],
                      "signature": list(sig), "violation": res["violation"], "digest": res.get("digest"),
                      "plan": {k: v for k, v in mplan.items() if not k.startswith("_")},
                      "minimised": {"ops_before": orig_ops, "ops_after": len(mplan.get("ops", [])),
                                    "tests": mplan.get("_minimise_tests")},
                      "runs_in_group": len(rs)}
            path = os.path.join(REPLAYS, "%s-%d-%d.json" % (prop, seed, r["idx"]))
            write_json(path, replay)
            ok, out = run_replay_subprocess(path, check.replay_attempts)
            if not ok:
                last_out = "violation at run %d does not replay in a fresh interpreter:\n%s" % (r["idx"], out)
                try:
                    os.unlink(path)
                except OSError:
                    pass
                continue
            k = match_known(findings, prop, replay)
            if k is not None:
                known_lines.append("KNOWN-FINDING: property=%s %s" % (prop, k.get("text", "")))
            else:
                reported.append((path, res["violation"]))
                exit_code = 1
            done = True
            break
        if not done:
            unreplayable.append(last_out)
    if unreplayable and not reported:
        harness_error(unreplayable[0])

    wall = time.time() - t0
    runs = n_records
    cov = {
        "evaluations": runs,
        "distinct_nontrivial": len(digests),
        "rule": check.rule,
        "samples": [_json_roundtrip(s) for s in samples[:3]] or ["(none)"],
        "operations_executed": ops,
        "estimating_steps": est,
        "runs_per_hour": int(runs / max(wall, 1e-9) * 3600),
        "seeds_per_hour": int(runs / max(wall, 1e-9) * 3600),
        "simulated_time": "not applicable: the system reads no clock; logical steps (operations) = %d" % ops,
        "fault_kinds_fired": faults,
        "probes": dict(sorted(probes.items())),
        "aborted_runs": aborted,
        "foreign_violations_ignored": foreign,
        "violation_groups": len(groups),
        "components": REAL_STUB,
        "workers": workers,
    }
    cov.update(check.extra_evidence(merged))
    ev = {"property_id": prop, "tier": tier, "seed": seed, "level": check.level, "coverage": cov,
          "assumptions": list(check.assumptions), "wall_s": round(wall, 2), "violations": len(reported)}
    err = validate_evidence(ev)
    os.makedirs(EVIDENCE, exist_ok=True)
    write_json(os.path.join(EVIDENCE, "%s.json" % prop), ev)
    if err and not reported:
        harness_error("evidence does not validate: %s" % err)
    for line in sorted(set(known_lines)):
        print(line)
    for path, v in reported:
        print("  %s: %s" % (v.get("oracle"), str(v.get("detail"))[:400]))
        print("VIOLATION property=%s replay=%s" % (prop, path))
    print("%s %s: %d runs, %d ops, %d distinct non-trivial interleavings, %d aborted, %.1fs -> exit %d"
          % (prop, tier, runs, ops, len(digests), sum(aborted.values()), wall, exit_code))
    sys.stdout.flush()
    signal.alarm(0)
    return exit_code


def _json_roundtrip(obj):
    return json.loads(json.dumps(obj, default=_json_default))


def replay_file(check, path):
    with open(path) as f:
        rep = json.load(f)
    plan = rep["plan"]
    res = check.run(plan)
    if res["ok"]:
        print("NOT-REPRODUCED: plan ran clean (digest %s)" % res.get("digest"))
        return 0
    sig = list(check.signature(res["violation"]))
    same = sig == rep.get("signature") and res.get("digest") == rep.get("digest")
    print("oracle=%s detail=%s" % (res["violation"].get("oracle"), str(res["violation"].get("detail"))[:600]))
    print("digest=%s (recorded %s)" % (res.get("digest"), rep.get("digest")))
    if same:
        print("REPRODUCED")
        print("VIOLATION property=%s replay=%s" % (rep["property"], path))
        return 1
    print("DIFFERENT: signature %r vs recorded %r" % (sig, rep.get("signature")))
    return 3

"""C07: storages hold only observed data, within capacity, with targets aligned.

World: one real storage object; schedule: updates of uniquely tagged (x, y) in three call styles; RNG seam in
per-operation, once and adversary-tape modes (accept bursts, never-accept, extreme uniforms, first/last slot)."""
import copy
import hashlib

from . import seams, seeds
from .driver import Check
from .plan import wchoice, gen_storage
from .world import STORAGE_CLASSES, storage_kwargs

DEFAULT_TARGETS = {"batch": True, "interval": True, "sequence": True, "uniform": False, "geometric": False}


def make_row(tag):
    return {"t": tag, "u": tag * 3 + 1, "w": -tag}, ("y", tag)


def gen_plan(rng, prop):
    s = gen_storage(rng)
    if s["kind"] in ("uniform", "geometric", "interval"):
        s["size"] = wchoice(rng, [(1, 20), (2, 20), (3, 20), (4, 15), (5, 15), (6, 10)])
    mode = wchoice(rng, [("perop", 35), ("tape", 50), ("once", 15)])
    T = wchoice(rng, [(rng.randint(2, 10), 30), (rng.randint(10, 30), 40), (rng.randint(30, 80), 30)])
    if rng.random() < 0.05:
        # larger capacities and long streams (block-wise / amortised code paths only show after many evictions)
        if "size" in s:
            s["size"] = rng.randint(8, 40)
        T = rng.randint(100, 400)
    ops = []
    burst = None
    for i in range(T):
        op = {"op": "update", "tag": i + 1, "rs": rng.getrandbits(48),
              "style": wchoice(rng, [("pos", 50), ("kw", 30), ("noy", 20)])}
        if mode == "tape":
            # bursts of one behaviour: accept-always / never-accept / extremes, then back to real draws
            if burst is None or burst[1] <= 0:
                kind = wchoice(rng, [("real", 30), ("accept", 25), ("reject", 15), ("tiny", 10), ("mix", 20)])
                burst = [kind, rng.randint(1, 8)]
            burst[1] -= 1
            k = burst[0]
            if k == "accept":      # zero-length Algorithm-L skips / geometric acceptance
                op["tape"] = {"u": ["hi" if s["kind"] == "uniform" else "tiny"], "r": [rng.choice(["first", "last", "real"])]}
            elif k == "reject":
                op["tape"] = {"u": ["lo" if s["kind"] == "uniform" else "hi"]}
            elif k == "tiny":
                op["tape"] = {"u": ["tiny"], "r": ["last"]}
            elif k == "mix":
                op["tape"] = {"u": [rng.choice(list(seams.U_MODES)) for _ in range(3)],
                              "r": [rng.choice(list(seams.R_MODES))]}
        ops.append(op)
    if "size" in s and rng.random() < 0.02:
        s["size"] = rng.randint(257, 300)        # capacities beyond CPython's small-int cache
        T = s["size"] + rng.randint(5, 60)
        ops = [{"op": "update", "tag": i + 1, "rs": rng.getrandbits(48), "style": "pos"} for i in range(T)]
    if "size" in s and rng.random() < 0.1:
        s["size_type"] = rng.choice(["int64", "int32", "uint8", "int16"])     # "every capacity >= 1", of any integer type
        if s["size_type"] == "uint8" and s["size"] > 255:
            s["size_type"] = "int64"
    if s["kind"] == "geometric" and s.get("p") is not None and rng.random() < 0.25:
        s["p_type"] = rng.choice(["float32", "float16", "float64"])
    cfg = {"storage": s, "rng": mode}
    if mode == "tape" and rng.random() < 0.5:
        cfg["ctor_tape"] = {"u": [rng.choice(list(seams.U_MODES)) for _ in range(2)]}
    return {"property": prop, "kind": "storage", "config": cfg, "ops": ops, "rs0": rng.getrandbits(48)}


def run_storage_plan(plan):
    cfg = plan["config"]
    scfg = cfg["storage"]
    kind = scfg["kind"]
    tape = seams.TAPE
    mode = cfg.get("rng", "perop")
    use_tape = mode == "tape"
    h = hashlib.blake2b(digest_size=16)
    res = {"ok": True, "violation": None, "ops_run": 0, "aborted": None, "probes": {}, "faults_fired": {},
           "estimating_steps": 0}
    probes = res["probes"]

    def probe(name):
        probes[name] = probes.get(name, 0) + 1

    def viol(oracle, detail, i):
        res["ok"] = False
        res["violation"] = {"property": "C07", "oracle": oracle, "detail": detail, "op_index": i, "cls": kind}
        return res

    try:
        if use_tape:
            tape.install()
            tape.begin_op(cfg.get("ctor_tape"), None)
        seams.reseed(plan.get("rs0", 1))
        try:
            storage = STORAGE_CLASSES[kind](**storage_kwargs(scfg))
        except Exception as exc:  # noqa: BLE001  a storage that cannot be built is an abort, not a C07 verdict
            res["aborted"] = "construction %s: %s" % (type(exc).__name__, str(exc)[:80])
            res["digest"] = h.hexdigest()
            return res
        targets = scfg.get("targets", DEFAULT_TARGETS[kind])
        cap = {"batch": None, "sequence": 1}.get(kind, scfg.get("size"))
        seen = []            # (tag, y_expected)
        prev_tags = []
        for i, op in enumerate(plan["ops"]):
            if mode != "once":
                seams.reseed(op["rs"])
            if use_tape:
                tape.begin_op(op.get("tape"), None)
            tag = op["tag"]
            x, y = make_row(tag)
            style = op.get("style", "pos")
            try:
                if style == "pos":
                    storage.update(x, y)
                elif style == "kw":
                    storage.update(x=x, y=y)
                else:
                    storage.update(x)
                    y = None
            except Exception as exc:  # noqa: BLE001
                res["aborted"] = "%s: %s" % (type(exc).__name__, str(exc)[:100])
                break
            seen.append((tag, y))
            ymap = dict(seen)
            res["ops_run"] = i + 1
            data = storage.get_data()
            xs, ys = list(data[0]), list(data[1])
            tags = []
            for row in xs:
                if not isinstance(row, dict) or "t" not in row:
                    return viol("stored-not-observed", "stored object %r is not an observed instance" % (row,), i)
                t = row["t"]
                if t not in ymap:
                    return viol("stored-not-observed", "stored tag %r was never observed" % (t,), i)
                if row != make_row(t)[0]:
                    return viol("stored-modified", "stored row %r differs from the observed %r" % (row, make_row(t)[0]), i)
                tags.append(t)
            h.update(repr((i, tags, ys)).encode())
            if len(set(tags)) != len(tags):
                return viol("arrival-stored-twice", "stored tags %r contain a duplicate" % (tags,), i)
            n = len(seen)
            want_len = n if cap is None else min(n, cap)
            if len(xs) != want_len:
                return viol("count", "%d stored after %d updates, capacity %r" % (len(xs), n, cap), i)
            if len(storage) != len(xs):
                return viol("len", "len(storage)=%d but %d instances stored" % (len(storage), len(xs)), i)
            if not targets:
                if len(ys) != 0:
                    return viol("targets-kept", "store_targets is off but %d targets are kept" % len(ys), i)
            else:
                if len(ys) != len(xs):
                    return viol("targets-count", "%d targets for %d instances" % (len(ys), len(xs)), i)
                for j, (t, yy) in enumerate(zip(tags, ys)):
                    if yy != ymap[t]:
                        return viol("target-misaligned", "slot %d holds instance %r with target %r (arrived with %r)"
                                    % (j, t, yy, ymap[t]), i)
                probe("alignment_checked")
            all_tags = [t for t, _ in seen]
            if kind == "batch" and tags != all_tags:
                return viol("batch-order", "stored %r, stream %r" % (tags, all_tags), i)
            if kind == "interval" and tags != all_tags[-cap:]:
                return viol("interval-window", "stored %r, last %d of stream %r" % (tags, cap, all_tags[-cap:]), i)
            if kind == "sequence" and tags != all_tags[-1:]:
                return viol("sequence-last", "stored %r, last arrival %r" % (tags, all_tags[-1:]), i)
            if kind in ("uniform", "geometric") and n > cap:
                if tags != prev_tags:
                    probe("reservoir_replaced")
                    res["estimating_steps"] += 1
                    changed = [j for j in range(len(tags)) if tags[j] != prev_tags[j]]
                    if changed == [0]:
                        probe("replaced_first_slot")
                    if changed == [len(tags) - 1]:
                        probe("replaced_last_slot")
                else:
                    probe("reservoir_kept")
            elif kind in ("batch", "interval", "sequence"):
                res["estimating_steps"] += 1
            prev_tags = tags
    finally:
        if use_tape:
            for k, n_ in tape.counts.items():
                probes["tape:" + k] = probes.get("tape:" + k, 0) + n_
            tape.counts = {}
            tape.remove()
    res["digest"] = h.hexdigest()
    return res


def enumerated_plans():
    """Scripted generator: every accept/reject x slot decision sequence of a GeometricReservoirStorage for small
    (k, n) - the random outcomes are enumerated exhaustively instead of sampled."""
    import itertools
    plans = []
    for k in (1, 2, 3):
        extra = 4 if k < 3 else 3
        choices = [("rej", 0)] + [("acc", j) for j in range(k)]
        for targets in (True, False):
            for seq in itertools.product(choices, repeat=extra):
                ops = [{"op": "update", "tag": i + 1, "rs": 1, "style": "pos"} for i in range(k)]
                for i, (dec, slot) in enumerate(seq):
                    op = {"op": "update", "tag": k + i + 1, "rs": 1, "style": "pos",
                          "tape": {"u": ["tiny" if dec == "acc" else "hi"], "r": ["idx:%d" % slot]}}
                    ops.append(op)
                plans.append({"property": "C07", "kind": "storage",
                              "config": {"storage": {"kind": "geometric", "size": k, "targets": targets, "p": [1, 2]},
                                         "rng": "tape", "enumerated": True},
                              "ops": ops, "rs0": 1})
    return plans


_ENUM = None


class C07Check(Check):
    prop = "C07"
    design_ref = "DESIGN.md section 4, C07"
    runs = {"quick": 4000, "thorough": 2500000}
    rule = ("plans = (storage class, capacity, store_targets, p, RNG mode, stream of uniquely tagged updates in three call "
            "styles, adversary-tape bursts); non-trivial = at least one update after which the content was checked with a "
            "replacement having happened (reservoirs) or any update (window storages); distinct = digest of the content "
            "history")
    assumptions = ["rows carry unique tags, so every stored object is attributable to one arrival",
                   "adversary tape keeps uniforms in the open interval (0,1)"]

    def enum(self):
        global _ENUM
        if _ENUM is None:
            _ENUM = enumerated_plans()
        return _ENUM

    def n_runs(self, tier):
        return self.runs[tier] + len(self.enum())

    def gen(self, seed, tier, run_index):
        e = self.enum()
        if run_index < len(e):
            return copy.deepcopy(e[run_index])
        return gen_plan(seeds.run_rng(seed, self.prop, tier, run_index), self.prop)

    def run(self, plan):
        res = run_storage_plan(plan)
        if plan["config"].get("enumerated"):
            res["probes"]["enumerated_decision_sequence"] = 1
        return res

    def extra_evidence(self, merged):
        return {"exhaustive_stratum": "every accept/reject x slot decision sequence of GeometricReservoirStorage for "
                                      "k in {1,2,3}, n <= k+4 (k=3: k+3), store_targets on/off: %d scripted plans" % len(self.enum())}

    def reductions(self, plan):
        out = []
        cfg = plan["config"]
        if cfg.get("rng") != "perop":
            p = copy.deepcopy(plan)
            p["config"]["rng"] = "perop"
            p["config"].pop("ctor_tape", None)
            for op in p["ops"]:
                op.pop("tape", None)
            out.append(p)
        if cfg["storage"].get("size", 1) > 1:
            p = copy.deepcopy(plan)
            p["config"]["storage"]["size"] -= 1
            out.append(p)
        for i, op in enumerate(plan["ops"]):
            if op.get("style", "pos") != "pos":
                p = copy.deepcopy(plan)
                p["ops"][i]["style"] = "pos"
                out.append(p)
                break
        return out


CHECKS = [C07Check]

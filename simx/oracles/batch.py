"""C05 oracle: BatchSage (both modes) / IntervalSage efficiency over the explained data, per-feature
chain reference, and the IntervalSage recomputation schedule."""
from ..refmodel import mean_prediction, ParseError
from ..world import effective
from .explainers import BaseOracle, num_equal, dict_equal, tol_for, has_model_events


def row_tag(world, x):
    """Rows are generated as value = tag*8 + j + 1 (unique mode): recover the tag of a row."""
    v = x[world.names[0]]
    return (int(v) - 1) // 8


def perm_candidates(names, entry):
    """Interpretations of a recorded np.random.permutation result: elements are names, or indices."""
    cands = []
    elems = list(entry)
    # A: elements are (coerced) names
    a = []
    for el in elems:
        m = [n for n in names if n == el or str(n) == str(el)]
        if len(m) != 1:
            a = None
            break
        a.append(m[0])
    if a is not None and len(a) == len(names) and len(set(map(repr, a))) == len(names):
        cands.append(a)
    # B: elements are indices into names
    try:
        if all(isinstance(el, int) and not isinstance(el, bool) for el in elems) and \
                sorted(elems) == list(range(len(names))):
            b = [names[el] for el in elems]
            if b not in cands:
                cands.append(b)
    except TypeError:
        pass
    return cands


def consistent(order, groups, x):
    """Necessary condition: after revealing order[:j+1], every model input agrees with x on them."""
    for j, g in enumerate(groups):
        rev = order[:j + 1]
        for inp in g["inputs"]:
            for f in rev:
                if inp.get(f) != x[f]:
                    return False
    return True


class C05Oracle(BaseOracle):
    prop = "C05"

    def __init__(self, world, plan):
        super().__init__(world, plan)
        self.stored = {}       # ("s", sid) | ("own", k) -> list of (x snapshot)
        self.prev_ret = {}
        self.ordinal = {}
        self.per_feature = True

    # -- storage model -----------------------------------------------------------------------------
    def store_key(self, k):
        ecfg = self.world.ecfgs[k]
        return ("s", ecfg["storage"]) if "storage" in ecfg else ("own", k)

    def track_storage(self, ctx):
        """The reference's own model of what each storage has been handed, driven by the OPERATIONS of the schedule
        (not by what the library's storage objects report): explain_one calls that update their storage, manual
        update_storage calls, and updates of an explicit storage by another party."""
        w = self.world
        op = ctx.op
        if ctx.outcome != "ok":
            return
        if op["op"] == "store":
            if "s" in op:
                self.stored.setdefault(("s", op["s"]), []).append(dict(ctx.x))
            elif op["e"] < len(w.explainers) and w.explainers[op["e"]] is not None:
                self.stored.setdefault(self.store_key(op["e"]), []).append(dict(ctx.x))
            return
        if op["op"] != "explain" or "e" not in op or op["e"] >= len(w.explainers) or w.explainers[op["e"]] is None:
            return
        k = op["e"]
        cls = w.ecfgs[k]["cls"]
        if cls == "batch" or op.get("us", True):
            self.stored.setdefault(self.store_key(k), []).append(dict(ctx.x_before))

    def window(self, k):
        ecfg = self.world.ecfgs[k]
        rows = self.stored.get(self.store_key(k), [])
        if ecfg["cls"] == "interval":
            size = ecfg.get("storage_length", 1000)
            if "storage" in ecfg:
                size = self.world.cfg["storages"][ecfg["storage"]].get("size", size)
            return rows[-size:]
        if "storage" not in ecfg or self.world.cfg["storages"][ecfg["storage"]]["kind"] == "batch":
            return rows
        return None    # reservoir / foreign storage: content not modelled here (C07's business)

    # -- the recomputation reference -------------------------------------------------------------------
    def check_recompute(self, ctx, xs_expected, ys_expected, original):
        w, e, k = self.world, ctx.explainer, ctx.e_index
        ecfg = ctx.ecfg
        eff = effective(ecfg, w)
        names = e._sim_names
        d = len(names)
        n = ctx.op.get("n_inner", eff["n_inner"])
        # The explained data: the reference's own model of the window / the rows handed to explain_many.  A batch
        # model call, when the library makes one, must be over exactly that data; how the library obtains the mean
        # prediction is otherwise its own business (the stub model is pure, the reference evaluates it itself).
        mbs = [ev for ev in ctx.events if ev[0] == "MB"]
        if xs_expected is not None:
            xs = xs_expected
            if mbs and mbs[0][1] != xs_expected:
                # how the library batches its model calls (one call, chunks, row by row) is its own business: the
                # values below are judged against the data the property says must be explained
                self.probe("batch_call_not_over_whole_data")
        elif mbs:
            xs = mbs[0][1]
        else:
            self.probe("explained_data_unobservable")
            return None
        if w.model_fn.family == "riverlabel":       # stateful real RiverWrapper: only its recorded outputs are usable
            if not mbs or len(mbs[0][2]) != len(xs):
                return None
            outs = mbs[0][2]
        else:
            outs = [w.model_fn(x) for x in xs]
        N = len(xs)
        if N == 0:
            return None
        if ys_expected is None and w.values not in ("unique", "unique0"):
            return None     # targets of the explained rows are recovered from unique row values only
        if ys_expected is not None:
            ys = ys_expected
        else:
            ys = [w.row(row_tag(w, x))[1] for x in xs]
        zero = w.num(0)
        meanpred = mean_prediction(outs, zero)
        lossfn = w.loss_fn
        total = zero
        starts = []
        for x, y, out in zip(xs, ys, outs):
            l0 = lossfn(y, meanpred)
            starts.append(l0)
            total = total + (l0 - lossfn(y, out))
        want_sum = total / N
        ret = ctx.ret
        tol = tol_for(w, {"dynamic": False}, N * d) * (d + 1)
        got_sum = zero
        for val in ret.values():
            got_sum = got_sum + val
        self.probe("sum_checked")
        if got_sum != 0:
            self.probe("sum_nonzero")
        fz = w.cfg.get("loss", {}).get("family") in ("river", "bool01")     # doubles / bools: judged to rounding
        if not num_equal(got_sum, want_sum, tol, fz):
            return self.v("sum-vs-mean-explained-loss", "sum(values)=%r expected %r over %d explained rows (%s)"
                          % (got_sum, want_sum, N, "original" if original else "imputer"),
                          explainer=k, cls=ecfg["cls"], original=bool(original))
        # ---- per-feature reference -------------------------------------------------------------
        first_mb = next((i for i, ev in enumerate(ctx.events) if ev[0] == "MB"), -1)
        rest = ctx.events[first_mb + 1:]
        explicit = "imputer" in ecfg and not original
        groups = []
        try:
            if explicit:
                cur = None
                for ev in rest:
                    if ev[0] == "II":
                        cur = {"subset": ev[2], "preds": None, "inputs": []}
                    elif ev[0] == "IO" and cur is not None:
                        cur["preds"] = ev[2]
                        groups.append(cur)
                        cur = None
                    elif ev[0] == "M" and cur is not None:
                        cur["inputs"].append(ev[1])
            else:
                ms = [ev for ev in rest if ev[0] == "M"]
                if len(ms) != N * d * n:
                    raise ParseError("%d model evaluations for %d rows x %d features x %d inner samples"
                                     % (len(ms), N, d, n))
                for i in range(0, len(ms), n):
                    chunk = ms[i:i + n]
                    groups.append({"subset": None, "preds": [c[2] for c in chunk], "inputs": [c[1] for c in chunk]})
            if len(groups) != N * d:
                raise ParseError("%d chain steps for %d rows x %d features" % (len(groups), N, d))
        except ParseError as pe:
            if explicit:
                return self.v("history-shape", str(pe), explainer=k, cls=ecfg["cls"])
            self.probe("order_unobservable")
            return None
        perms = [r[1] for r in (ctx.rec or []) if r[0] == "p"]
        sums = {f: zero for f in names}
        for i, (x, y) in enumerate(zip(xs, ys)):
            gs = groups[i * d:(i + 1) * d]
            order = None
            if explicit:
                remaining = list(names)
                order = []
                for g in gs:
                    sub = list(g["subset"])
                    gone = [f for f in remaining if not any(s == f for s in sub)]
                    extra = [s for s in sub if not any(s == f for f in remaining)]
                    if extra or len(gone) != 1:
                        return self.v("chain-subsets", "imputation subsets do not shrink by exactly one unrevealed "
                                      "feature: remaining=%r subset=%r" % (remaining, sub), explainer=k, cls=ecfg["cls"])
                    order.append(gone[0])
                    remaining = [r for r in remaining if not (r == gone[0])]
            else:
                cands = []
                if i < len(perms) and len(perms) == N:
                    cands = [c for c in perm_candidates(names, perms[i]) if consistent(c, gs, x)]
                if len(cands) == 1:
                    order = cands[0]
            if order is None:
                self.probe("order_unobservable")
                self.probe("order_unobservable_original" if original else "order_unobservable_imputer")
                return None
            prev = starts[i]
            for f, g in zip(order, gs):
                if len(g["preds"]) != n:
                    return self.v("inner-samples", "chain step used %d predictions, n_inner=%d" % (len(g["preds"]), n),
                                  explainer=k, cls=ecfg["cls"])
                cur = lossfn(y, mean_prediction(g["preds"], zero))
                sums[f] = sums[f] + (prev - cur)
                prev = cur
        want = {f: sums[f] / N for f in names}
        self.probe("per_feature_checked")
        self.probe("per_feature_checked_original" if original else "per_feature_checked_imputer")
        msg = dict_equal(ret, want, tol, fz)
        if msg:
            return self.v("per-feature-values", msg + (" (%s mode, %d rows)" % ("original" if original else "imputer", N)),
                          explainer=k, cls=ecfg["cls"], original=bool(original))
        return None

    # -- main -----------------------------------------------------------------------------------------
    def after_op(self, ctx):
        self.track_storage(ctx)
        op = ctx.op
        if op["op"] not in ("explain", "many", "many_orig") or ctx.explainer is None:
            return None
        ecfg = ctx.ecfg
        if ecfg["cls"] not in ("batch", "interval"):
            return None
        if ctx.outcome != "ok":
            return None
        k, e, w = ctx.e_index, ctx.explainer, self.world
        if op["op"] in ("many", "many_orig"):
            v = self.check_recompute(ctx, ctx.x_before, ctx.y_before, op["op"] == "many_orig")
            if v:
                return v
            if ctx.ret != e.importance_values:
                return self.v("return-vs-property", "returned %r, importance_values %r" % (ctx.ret, e.importance_values),
                              explainer=k, cls=ecfg["cls"])
            self.prev_ret[k] = dict(ctx.ret)
            return None
        # explain_one
        c = self.ordinal.get(k, 0) + 1
        self.ordinal[k] = c
        if ecfg["cls"] == "batch":
            win = self.window(k)
            v = self.check_recompute(ctx, win, None, bool(op.get("original")))
            if v:
                return v
            self.prev_ret[k] = dict(ctx.ret)
            return None
        # interval
        L = ecfg.get("interval_length", 1000)
        should = bool(op.get("force")) or (c % L == 0)
        if e.seen_samples != c:
            return self.v("seen-samples", "seen_samples=%r after call #%d" % (e.seen_samples, c), explainer=k, cls="interval")
        if not should:
            self.probe("idle_call")
            if has_model_events(ctx.events):
                return self.v("schedule-recomputed-off-interval",
                              "call #%d (interval_length=%d, not forced) evaluated the model" % (c, L), explainer=k,
                              cls="interval")
            prev = self.prev_ret.get(k)
            if prev is None:
                prev = {f: 0.0 for f in e._sim_names}
            if ctx.ret != prev:
                return self.v("idle-call-changed-values", "call #%d returned %r, previous values %r" % (c, ctx.ret, prev),
                              explainer=k, cls="interval")
            return None
        self.probe("recompute_forced" if op.get("force") and c % L != 0 else "recompute_scheduled")
        if not has_model_events(ctx.events):
            return self.v("schedule-skipped-recomputation",
                          "call #%d (interval_length=%d, force=%r) did not evaluate the model" % (c, L, bool(op.get("force"))),
                          explainer=k, cls="interval")
        win = self.window(k)
        if win is not None and len(win) < len(self.stored.get(self.store_key(k), [])):
            self.probe("window_slid")
        v = self.check_recompute(ctx, win, None, False)
        if v:
            return v
        if ctx.ret != e.importance_values:
            return self.v("return-vs-property", "returned %r, importance_values %r" % (ctx.ret, e.importance_values),
                          explainer=k, cls="interval")
        self.prev_ret[k] = dict(ctx.ret)
        return None


class C05ResumedOracle(C05Oracle):
    """For C17: after a failed call the schedule ordinal of IntervalSage is not an "estimate", so only the values of
    every recomputation that does happen are judged (sum identity and per-feature reference over the data the
    library actually explained)."""

    def after_op(self, ctx):
        op = ctx.op
        if op["op"] not in ("explain", "many", "many_orig") or ctx.explainer is None or ctx.outcome != "ok":
            return None
        if ctx.ecfg["cls"] not in ("batch", "interval"):
            return None
        if not any(ev[0] == "MB" for ev in ctx.events):
            return None
        if op["op"] in ("many", "many_orig"):
            return self.check_recompute(ctx, ctx.x_before, ctx.y_before, op["op"] == "many_orig")
        return self.check_recompute(ctx, None, None, bool(op.get("original")))

"""Oracles for explainer worlds: C01, C02, C03, C15, C16, C17 (and the batch sum/schedule oracle C05
lives in batch.py).  Every oracle looks only at what crosses the public seams: return values, public
properties, and the recorded call-outs."""
import copy
import math
from fractions import Fraction

import numpy as np

from ..exact import Exact
from ..refmodel import PFIRef, SageRef, ParseError
from ..world import effective

EPS = 2.220446049250313e-16


def _eps_of(values):
    """Machine epsilon of the coarsest floating type among the values (np.float32 results are judged as such)."""
    e = 2.220446049250313e-16
    for v in values:
        if isinstance(v, np.floating):
            e = max(e, float(np.finfo(type(v)).eps))
    return e


def _tiny_of(values):
    """Smallest normal number of the coarsest floating type among the values."""
    t = 2.2250738585072014e-308
    for v in values:
        if isinstance(v, np.floating):
            t = max(t, float(np.finfo(type(v)).tiny))
    return t


def _is_exactnum(v):
    return isinstance(v, (Exact, Fraction, int)) and not isinstance(v, bool)


def fl(v):
    return float(v)


def tol_for(world, eff, T, power=1):
    """Float tolerance, RELATIVE to the largest loss magnitude seen so far (every estimate is linear in the losses), so
    that a deviation is not hidden just because the losses of a world are tiny; the loss-direction offset of 1 is part of
    the magnitudes when it is in play."""
    d = world.d
    base = world.maxloss + (1.0 if eff.get("lbib") else 0.0)
    if power == 2:
        base = 4.0 * world.maxloss * world.maxloss
    base = max(base, 1e-300)
    k = T + 2
    if eff.get("dynamic"):
        a = fl(eff["alpha"])
        if a > 0:
            k = max(k, 1.0 / a)
    return 64.0 * EPS * (d + 2) * k * base


def num_equal(a, b, tol, force=False):
    """Exact equality for exact numbers; tolerance otherwise (or when forced: the configuration itself
    contains a double, e.g. the default alpha).  NaN never equals anything."""
    if _is_exactnum(a) and _is_exactnum(b) and not force:
        return a == b
    try:
        fa, fb = float(a), float(b)
    except (TypeError, ValueError):
        return False
    if math.isnan(fa) or math.isnan(fb):
        return False
    if fa == fb:
        return True
    return abs(fa - fb) <= tol


def dict_equal(a, b, tol, force=False):
    """Key sets equal by ==/hash, values num_equal.  Returns None or a description."""
    if a is None or b is None:
        return None
    if not isinstance(a, dict):
        return "not a dict: %r" % (a,)
    if len(a) != len(b) or set(a.keys()) != set(b.keys()):
        return "key sets differ: %r vs %r" % (sorted(map(repr, a.keys())), sorted(map(repr, b.keys())))
    for k in b:
        if not num_equal(a[k], b[k], tol, force):
            return "value for %r: got %r, expected %r" % (k, a[k], b[k])
    return None


def is_incremental(ecfg):
    return ecfg["cls"] in ("pfi", "sage")


def explicit_imputer(ecfg):
    return "imputer" in ecfg


def has_model_events(events):
    return any(e[0] in ("M", "MB") for e in events)


class BaseOracle:
    prop = "?"

    def __init__(self, world, plan):
        self.world = world
        self.plan = plan
        self.probes = {}
        self.failed_ops = set()
        self.calls = {}          # explainer index -> successful explain calls
        self.est = {}            # explainer index -> estimating steps seen

    def probe(self, name, n=1):
        self.probes[name] = self.probes.get(name, 0) + n

    def v(self, oracle, detail, **extra):
        d = {"property": self.prop, "oracle": oracle, "detail": detail}
        d.update(extra)
        return d

    def count_call(self, ctx):
        """Bookkeeping shared by all oracles: returns (calls_before, estimating) for explain ops."""
        k = ctx.e_index
        before = self.calls.get(k, 0)
        if ctx.outcome == "ok":
            self.calls[k] = before + 1
        est = has_model_events(ctx.events)
        if est and ctx.outcome == "ok":
            self.est[k] = self.est.get(k, 0) + 1
        return before, est


# ----------------------------------------------------------------------------------------------
# C01
# ----------------------------------------------------------------------------------------------

class C01Oracle(BaseOracle):
    prop = "C01"

    def check_explainer(self, k, e, ecfg):
        w = self.world
        eff = effective(ecfg, w)
        T = self.est.get(k, 0)
        tol = tol_for(w, eff, T) * (w.d + 1)
        iv = e.importance_values
        total = 0
        for val in iv.values():
            total = total + val
        el = e.explained_loss
        ml, mo = e.marginal_loss, e.model_loss
        if w.arith in ("exact", "fraction") and not eff.get("inexact") and T > 0 and _is_exactnum(total):
            # "exactly when losses are exact numbers": every loss of this world is an exact rational, so the explained
            # loss reported through the public property has to be THE rational, not a rounded double
            try:
                exact_equal = Fraction(total) == Fraction(el)
            except (TypeError, ValueError):
                exact_equal = False
            if not exact_equal:
                return self.v("sum-vs-explained-loss-exactly",
                              "all losses are exact rationals: sum(importance)=%r but explained_loss=%r (%s)"
                              % (total, el, type(el).__name__), explainer=k, cls=ecfg["cls"])
        if not num_equal(total, el, tol):
            return self.v("sum-vs-explained-loss",
                          "sum(importance)=%r explained_loss=%r (explainer %d, T=%d)" % (total, el, k, T),
                          explainer=k, cls=ecfg["cls"])
        if not num_equal(ml - mo, el, tol):
            return self.v("explained-loss-definition",
                          "marginal_loss-model_loss=%r explained_loss=%r" % (ml - mo, el), explainer=k)
        if T > 0:
            self.probe("identity_checked_after_estimate")
            if isinstance(total, Exact):
                self.probe("identity_checked_exact")
            if total != 0:
                self.probe("nonzero_explained_loss")
        return None

    def after_op(self, ctx):
        if ctx.op["op"] == "explain" and ctx.explainer is not None:
            if ctx.outcome == "raise" and self.world.fired is not None:
                self.failed_ops.add(ctx.i)
            self.count_call(ctx)
        if ctx.outcome == "raise":
            if self.world.fired is None and not ctx.op.get("expect_raise"):
                return None
        for k, e in enumerate(self.world.explainers):
            if e is None or self.world.ecfgs[k]["cls"] != "sage":
                continue
            v = self.check_explainer(k, e, self.world.ecfgs[k])
            if v:
                return v
            if ctx.op["op"] == "observe" and ctx.e_index == k:
                a = (e.importance_values, e.marginal_loss, e.model_loss, e.explained_loss)
                b = (e.importance_values, e.marginal_loss, e.model_loss, e.explained_loss)
                if repr(a) != repr(b):
                    return self.v("observe-not-idempotent", "reading the properties changed them", explainer=k)
        return None


# ----------------------------------------------------------------------------------------------
# C02
# ----------------------------------------------------------------------------------------------

def exercise_readonly(e):
    """Calls every read-only public method; none of them may disturb the estimates."""
    for fn in (lambda: e.get_normalized_importance_values("sum"), lambda: e.get_normalized_importance_values("delta"),
               lambda: e.get_normalized_importance_values(), lambda: e.get_confidence_bound(0.5), lambda: repr(e)):
        try:
            fn()
        except Exception:  # noqa: BLE001  (before the first estimate some of them raise by design)
            pass


class C02Oracle(BaseOracle):
    prop = "C02"

    def __init__(self, world, plan, lenient_first=False):
        super().__init__(world, plan)
        self.refs = {}
        self.lenient_first = lenient_first

    def ref_for(self, k, ecfg):
        r = self.refs.get(k)
        if r is None:
            w = self.world
            eff = effective(ecfg, w)
            names = self.world.explainers[k]._sim_names
            r = self.refs[k] = PFIRef(names, eff["dynamic"], eff["alpha"], eff["n_inner"], w.loss_fn, w.num(0))
        return r

    def after_op(self, ctx):
        if ctx.op["op"] == "observe" and ctx.explainer is not None and ctx.ecfg["cls"] == "pfi" and \
                ctx.e_index in self.refs and self.refs[ctx.e_index].steps > 0:
            # "after each observation ... equals": reading through the public read-only API in between changes nothing
            k, e, w = ctx.e_index, ctx.explainer, self.world
            ref = self.refs[k]
            eff = effective(ctx.ecfg, w)
            exercise_readonly(e)
            fz = eff.get("inexact", False)
            msg = dict_equal(e.importance_values, ref.importance(), tol_for(w, eff, ref.steps), fz)
            if msg:
                return self.v("importance-values-after-reading", msg, explainer=k, step=ref.steps)
            msg = dict_equal(e.variances, ref.variances(), tol_for(w, eff, ref.steps, power=2), fz)
            if msg:
                return self.v("variances-after-reading", msg, explainer=k, step=ref.steps)
            self.probe("readonly_api_exercised")
            return None
        if ctx.op["op"] != "explain" or ctx.explainer is None or ctx.ecfg["cls"] != "pfi":
            return None
        k, e, w = ctx.e_index, ctx.explainer, self.world
        if ctx.outcome == "raise":
            if w.fired is not None or ctx.op.get("expect_raise"):
                self.failed_ops.add(ctx.i)
            return None
        before, est = self.count_call(ctx)
        ref = self.ref_for(k, ctx.ecfg)
        eff = effective(ctx.ecfg, w)
        if before == 0 and not self.lenient_first:
            bad = [ev[0] for ev in ctx.events if ev[0] in ("M", "MB", "L", "II")]
            if bad:
                return self.v("first-observation-only-seeds",
                              "first explain_one made call-outs %r" % (bad[:6],), explainer=k)
            # "started at zero": before the first estimate the values are either absent or exactly zero
            if any(not (val == 0) for val in e.importance_values.values()):
                return self.v("first-observation-only-seeds",
                              "importance values %r after the first observation" % (e.importance_values,),
                              explainer=k)
            return None
        if not est:
            if self.lenient_first and before == 0:
                return None
            if self.lenient_first:
                return None
            return self.v("estimation-skipped", "explain_one #%d made no model evaluation" % (before + 1),
                          explainer=k)
        try:
            contrib = ref.step(ctx.events, ctx.x_before, ctx.y_before, ctx.op.get("n_inner"),
                               explicit_imputer(ctx.ecfg))
        except ParseError as pe:
            return self.v("history-shape", str(pe), explainer=k)
        T = ref.steps
        tol = tol_for(w, eff, T)
        tolv = tol_for(w, eff, T, power=2)
        fz = eff.get("inexact", False)
        self.probe("pfi_step_compared")
        if any(val == 0 for val in contrib.values()):
            self.probe("zero_contribution")
        msg = dict_equal(ctx.ret, ref.importance(), tol, fz)
        if msg:
            return self.v("return-value", msg, explainer=k, step=T)
        msg = dict_equal(e.importance_values, ref.importance(), tol, fz)
        if msg:
            return self.v("importance-values", msg, explainer=k, step=T)
        msg = dict_equal(e.variances, ref.variances(), tolv, fz)
        if msg:
            return self.v("variances", msg, explainer=k, step=T)
        # derived: a feature the model ignores has importance exactly 0 (explicit marginal/default imputer)
        ign = w.model_fn.ignore
        if ign and w.cfg["imputers"] and explicit_imputer(ctx.ecfg) and \
                w.cfg["imputers"][ctx.ecfg["imputer"]]["kind"] != "stub":
            iv = e.importance_values
            for j in ign:
                f = w.names[j]
                if f in iv and not num_equal(iv[f], 0, tol):
                    return self.v("ignored-feature-nonzero", "feature %r ignored by the model has PFI %r" % (f, iv[f]),
                                  explainer=k)
                self.probe("ignored_feature_zero")
        return None


# ----------------------------------------------------------------------------------------------
# C03
# ----------------------------------------------------------------------------------------------

class C03Oracle(BaseOracle):
    prop = "C03"

    def __init__(self, world, plan, lenient_first=False):
        super().__init__(world, plan)
        self.refs = {}
        self.lenient_first = lenient_first

    def ref_for(self, k, ecfg):
        r = self.refs.get(k)
        if r is None:
            w = self.world
            eff = effective(ecfg, w)
            names = self.world.explainers[k]._sim_names
            r = self.refs[k] = SageRef(names, eff["dynamic"], eff["alpha"], eff["n_inner"], w.loss_fn,
                                       w.num(0), eff["lbib"])
        return r

    def after_op(self, ctx):
        if ctx.op["op"] == "observe" and ctx.explainer is not None and ctx.ecfg["cls"] == "sage" and \
                ctx.e_index in self.refs and self.refs[ctx.e_index].steps > 0 and \
                self.refs[ctx.e_index].importance() is not None:
            k, e, w = ctx.e_index, ctx.explainer, self.world
            ref = self.refs[k]
            eff = effective(ctx.ecfg, w)
            exercise_readonly(e)
            fz = eff.get("inexact", False)
            msg = dict_equal(e.importance_values, ref.importance(), tol_for(w, eff, ref.steps), fz)
            if msg:
                return self.v("importance-values-after-reading", msg, explainer=k, step=ref.steps)
            msg = dict_equal(e.variances, ref.variances(), tol_for(w, eff, ref.steps, power=2), fz)
            if msg:
                return self.v("variances-after-reading", msg, explainer=k, step=ref.steps)
            if not num_equal(e.marginal_loss, ref.marginal_loss(), tol_for(w, eff, ref.steps), fz):
                return self.v("marginal-loss-after-reading", "got %r expected %r" % (e.marginal_loss, ref.marginal_loss()),
                              explainer=k)
            self.probe("readonly_api_exercised")
            return None
        if ctx.op["op"] != "explain" or ctx.explainer is None or ctx.ecfg["cls"] != "sage":
            return None
        k, e, w = ctx.e_index, ctx.explainer, self.world
        if ctx.outcome == "raise":
            if w.fired is not None or ctx.op.get("expect_raise"):
                self.failed_ops.add(ctx.i)
            return None
        before, est = self.count_call(ctx)
        ref = self.ref_for(k, ctx.ecfg)
        eff = effective(ctx.ecfg, w)
        if before == 0 and not self.lenient_first:
            bad = [ev[0] for ev in ctx.events if ev[0] in ("M", "MB", "L", "II")]
            if bad:
                return self.v("first-observation-only-seeds",
                              "first explain_one made call-outs %r" % (bad[:6],), explainer=k)
            return None
        if not est:
            if self.lenient_first:
                return None
            return self.v("estimation-skipped", "explain_one #%d made no model evaluation" % (before + 1),
                          explainer=k)
        try:
            contrib = ref.step(ctx.events, ctx.x_before, ctx.y_before, ctx.op.get("n_inner"),
                               explicit_imputer(ctx.ecfg))
        except ParseError as pe:
            return self.v("history-shape", str(pe), explainer=k)
        T = ref.steps
        tol = tol_for(w, eff, T)
        tolv = tol_for(w, eff, T, power=2)
        fz = eff.get("inexact", False)
        self.probe("sage_step_compared")
        if ref.last_order is not None:
            o = ref.last_order
            if o == ref.names:
                self.probe("identity_order")
            elif o == ref.names[::-1]:
                self.probe("reversed_order")
        else:
            self.probe("order_unobservable")
        if len(ref.mpred.stats) > 1:
            self.probe("multi_label_marginal")
        if not num_equal(e.model_loss, ref.model_loss(), tol, fz):
            return self.v("model-loss", "got %r expected %r" % (e.model_loss, ref.model_loss()), explainer=k, step=T)
        tolp = tol * max(1.0, w.maxpred) / max(w.maxloss + (1.0 if eff.get("lbib") else 0.0), 1e-300)
        msg = dict_equal(e.marginal_prediction, ref.marginal_prediction, tolp, fz)
        if msg:
            return self.v("marginal-prediction", msg, explainer=k, step=T)
        if not num_equal(e.marginal_loss, ref.marginal_loss(), tol, fz):
            return self.v("marginal-loss", "got %r expected %r" % (e.marginal_loss, ref.marginal_loss()),
                          explainer=k, step=T)
        if ref.importance() is not None:
            msg = dict_equal(ctx.ret, ref.importance(), tol, fz)
            if msg:
                return self.v("return-value", msg, explainer=k, step=T, order=repr(ref.last_order))
            msg = dict_equal(e.importance_values, ref.importance(), tol, fz)
            if msg:
                return self.v("importance-values", msg, explainer=k, step=T, order=repr(ref.last_order))
            msg = dict_equal(e.variances, ref.variances(), tolv, fz)
            if msg:
                return self.v("variances", msg, explainer=k, step=T)
        return None


# ----------------------------------------------------------------------------------------------
# C15
# ----------------------------------------------------------------------------------------------

class C15Oracle(BaseOracle):
    prop = "C15"

    def after_build(self, world):
        for k, ecfg, exc in world.construct_errors:
            return self.v("construction-failed",
                          "%s(%s) raised %s: %s" % (ecfg["cls"], _ecfg_brief(ecfg), type(exc).__name__, exc),
                          explainer=k, cls=ecfg["cls"], exc=type(exc).__name__)
        return self.check_names_objects()

    def check_names_objects(self):
        for k, e in enumerate(self.world.explainers):
            if e is not None and list(e._sim_names_obj) != e._sim_names:
                return self.v("names-modified", "the caller's feature-name list %r was changed to %r"
                              % (e._sim_names, list(e._sim_names_obj)), explainer=k, cls=self.world.ecfgs[k]["cls"])
        return None

    def before_op(self, ctx):
        op = ctx.op
        if op["op"] == "explain":
            e = self.world.explainers[op["e"]]
            if e is not None:
                ctx.pre["seen"] = getattr(e, "seen_samples", None)

    def after_op(self, ctx):
        w = self.world
        if ctx.op["op"] == "construct":
            v = self.check_names_objects()
            if v:
                return v
            if w.construct_errors:
                k, ecfg, exc = w.construct_errors[-1]
                return self.v("construction-failed",
                              "%s(%s) raised %s: %s" % (ecfg["cls"], _ecfg_brief(ecfg), type(exc).__name__, exc),
                              explainer=k, cls=ecfg["cls"], exc=type(exc).__name__)
            return None
        if ctx.op["op"] not in ("explain", "many", "many_orig") or ctx.explainer is None:
            return None
        k, e, ecfg = ctx.e_index, ctx.explainer, ctx.ecfg
        if ctx.outcome == "raise":
            if ctx.op.get("expect_raise"):
                return None
            return self.v("call-raised", "%s.%s raised %s: %s" % (ecfg["cls"], ctx.op["op"], type(ctx.exc).__name__,
                                                                  str(ctx.exc)[:160]),
                          explainer=k, cls=ecfg["cls"], exc=type(ctx.exc).__name__)
        before, est = self.count_call(ctx)
        names = e._sim_names
        # returned dict equals the importance_values property
        iv = e.importance_values
        if ctx.op["op"] == "explain":
            if not isinstance(ctx.ret, dict) or ctx.ret != iv:
                return self.v("return-vs-property", "returned %r, importance_values %r" % (ctx.ret, iv),
                              explainer=k, cls=ecfg["cls"])
        # key set equals the given names once an estimate exists
        if iv:
            if len(iv) != len(names) or set(iv.keys()) != set(names):
                return self.v("keys-vs-names", "keys %r, names %r" % (list(iv.keys()), names), explainer=k,
                              cls=ecfg["cls"])
            for f in names:
                try:
                    iv[f]
                except KeyError:
                    return self.v("keys-vs-names", "name %r not retrievable from %r" % (f, list(iv.keys())),
                                  explainer=k, cls=ecfg["cls"])
            self.probe("keys_checked")
        if ctx.op["op"] != "explain":
            return None
        # inputs unmodified
        if ctx.x != ctx.x_before or list(ctx.x.keys()) != list(ctx.x_before.keys()):
            return self.v("x-modified", "x before %r after %r" % (ctx.x_before, ctx.x), explainer=k)
        if ctx.y != ctx.y_before:
            return self.v("y-modified", "y before %r after %r" % (ctx.y_before, ctx.y), explainer=k)
        if list(e.feature_names) != ctx.names_before or ctx.names_before != names:
            return self.v("names-modified", "feature names %r -> %r" % (names, list(e.feature_names)), explainer=k)
        v = self.check_names_objects()
        if v:
            return v
        if not is_incremental(ecfg):
            return None
        eff = effective(ecfg, w)
        # seen_samples
        if e.seen_samples != ctx.pre["seen"] + 1:
            return self.v("seen-samples", "seen_samples %r -> %r" % (ctx.pre["seen"], e.seen_samples), explainer=k)
        # evaluation budget with the default imputer
        n = ctx.op.get("n_inner", eff["n_inner"])
        mcount = sum(1 for ev in ctx.events if ev[0] == "M")
        if "imputer" not in ecfg:
            want = 0 if before == 0 else 1 + len(names) * n
            if mcount != want:
                return self.v("model-evaluation-budget",
                              "call #%d evaluated the model %d times, expected %d (d=%d, n_inner=%d)"
                              % (before + 1, mcount, want, len(names), n), explainer=k, cls=ecfg["cls"])
            self.probe("budget_checked")
        elif before == 0 and mcount:
            return self.v("model-evaluation-budget", "first call evaluated the model %d times" % mcount,
                          explainer=k, cls=ecfg["cls"])
        # storage update exactly once, with (x, y), after the last other call-out - or not at all
        if "storage" in ecfg:
            sid = ecfg["storage"]
            sus = [(idx, ev) for idx, ev in enumerate(ctx.events) if ev[0] == "SU" and ev[1] == sid]
            other_su = [ev for ev in ctx.events if ev[0] == "SU" and ev[1] != sid]
            if other_su:
                return self.v("storage-update", "updated a storage that is not the explainer's", explainer=k)
            us = ctx.op.get("us", True)
            if not us:
                if sus:
                    return self.v("storage-update", "update_storage=False but the storage was updated", explainer=k,
                                  cls=ecfg["cls"])
                self.probe("no_update_checked")
            else:
                if len(sus) != 1:
                    return self.v("storage-update", "%d storage updates in one explain_one" % len(sus), explainer=k,
                                  cls=ecfg["cls"])
                idx, ev = sus[0]
                if ev[2] != ctx.x_before or ev[3] != ctx.y_before:
                    return self.v("storage-update", "stored (%r, %r) instead of (%r, %r)"
                                  % (ev[2], ev[3], ctx.x_before, ctx.y_before), explainer=k, cls=ecfg["cls"])
                later = [ev2[0] for ev2 in ctx.events[idx + 1:] if ev2[0] in ("M", "MB", "L", "II", "IO")]
                if later:
                    return self.v("storage-update-order",
                                  "storage updated before the explanation finished (later call-outs %r)" % later[:4],
                                  explainer=k, cls=ecfg["cls"])
                self.probe("update_order_checked")
        return None


def _ecfg_brief(ecfg):
    return ", ".join("%s=%r" % (k, v) for k, v in sorted(ecfg.items()) if k != "cls")


# ----------------------------------------------------------------------------------------------
# C16
# ----------------------------------------------------------------------------------------------

DELTAS = (0.01, 0.1, 0.5, 1.0)


class C16Oracle(BaseOracle):
    prop = "C16"

    def after_op(self, ctx):
        if ctx.outcome == "raise":
            return None
        if ctx.op["op"] == "explain" and ctx.explainer is not None:
            self.count_call(ctx)
        if ctx.op["op"] not in ("explain", "observe"):
            return None
        k, e, ecfg = ctx.e_index, ctx.explainer, ctx.ecfg
        if e is None or not is_incremental(ecfg):
            return None
        raw = e.importance_values
        w = self.world
        eff = effective(ecfg, w)
        names = e._sim_names
        if not raw:
            # a state reachable by a stream of length 0 or 1: there is nothing to normalise yet, but the calls must
            # still be well-formed (no exception, nothing non-finite); the bound is (1-alpha)^t with no variance yet
            self.probe("state_before_first_estimate")
            for mode in ("sum", "delta"):
                try:
                    norm = e.get_normalized_importance_values(mode=mode)
                except Exception as exc:  # noqa: BLE001
                    return self.v("normalisation-raised", "%s mode raised %s: %s before the first estimate (raw values %r)"
                                  % (mode, type(exc).__name__, exc, raw), explainer=k, mode=mode, pre_estimate=True)
                if not isinstance(norm, dict) or any(not math.isfinite(float(x)) for x in norm.values()):
                    return self.v("normalised-not-finite", "mode=%s raw=%r normalised=%r" % (mode, raw, norm),
                                  explainer=k, mode=mode, pre_estimate=True)
        for mode in (("sum", "delta") if raw else ()):
            try:
                norm = e.get_normalized_importance_values(mode=mode)
            except Exception as exc:  # noqa: BLE001
                return self.v("normalisation-raised", "%s mode raised %s: %s" % (mode, type(exc).__name__, exc),
                              explainer=k, mode=mode)
            vals = list(raw.values())
            if mode == "sum":
                factor = 0
                for val in vals:
                    factor = factor + val
            else:
                factor = max(vals) - min(vals)
            if set(norm.keys()) != set(raw.keys()):
                return self.v("normalisation-keys", "keys %r vs %r" % (list(norm), list(raw)), explainer=k, mode=mode)
            for f, val in norm.items():
                try:
                    ok = math.isfinite(float(val))
                except (TypeError, ValueError):
                    ok = False
                if not ok:
                    return self.v("normalised-not-finite",
                                  "mode=%s raw=%r normalised[%r]=%r (value type %s)"
                                  % (mode, raw, f, val, type(raw[f]).__name__),
                                  explainer=k, mode=mode, cls=ecfg["cls"], vtype=type(raw[f]).__name__,
                                  zero_factor=bool(factor == 0))
            exact = all(_is_exactnum(x) for x in vals) and all(_is_exactnum(x) for x in norm.values())
            EPS = _eps_of(vals + list(norm.values()))
            sraw = sum(abs(float(x)) for x in vals)
            nv = list(norm.values())
            all_zero_norm = all(x == 0 for x in nv)
            # "numerically zero" normaliser: float summation order/compensation may or may not give exactly 0
            numerically_zero = (factor == 0) if exact else abs(float(factor)) <= 4 * len(vals) * EPS * sraw
            if all_zero_norm:
                if not numerically_zero and any(x != 0 for x in vals):
                    return self.v("normalised-all-zero", "mode=%s raw=%r normalised=%r although the normaliser %r is not zero"
                                  % (mode, raw, norm, factor), explainer=k, mode=mode)
                self.probe("zero_normaliser_" + mode)
                self.probe("zero_normaliser_type_" + type(vals[0]).__name__)
                continue
            if factor == 0 and exact:
                return self.v("zero-normaliser-not-zero", "mode=%s raw=%r normalised=%r" % (mode, raw, norm),
                              explainer=k, mode=mode)
            self.probe("normalised_" + mode)
            # ratios: cross-multiplication against the largest raw value (robust to cancellation in the factor)
            piv = max(raw, key=lambda f: abs(float(raw[f])))
            for f in raw:
                lhs, rhs = norm[f] * raw[piv], norm[piv] * raw[f]
                if exact:
                    bad = lhs != rhs
                else:
                    # a quotient below the smallest normal number of its type carries an ABSOLUTE error of one
                    # subnormal spacing (tiny*eps) instead of a relative one
                    tiny = _tiny_of(vals + list(norm.values()))
                    err_f = max(EPS * abs(float(norm[f])), tiny * EPS)
                    err_p = max(EPS * abs(float(norm[piv])), tiny * EPS)
                    bad = abs(float(lhs) - float(rhs)) > 16 * (abs(float(raw[piv])) * err_f + abs(float(raw[f])) * err_p) \
                        + 8 * tiny * EPS
                if bad:
                    return self.v("ratios-not-preserved", "mode=%s raw=%r normalised=%r (features %r, %r)"
                                  % (mode, raw, norm, f, piv), explainer=k, mode=mode)
            sabs = sum(abs(float(x)) for x in nv)
            if mode == "sum":
                tot = 0
                for x in nv:
                    tot = tot + x
                bad = (tot != 1) if exact else abs(float(tot) - 1.0) > 16 * EPS * (len(nv) + 1) * max(1.0, sabs)
                if bad:
                    return self.v("sum-not-one", "normalised values %r add up to %r" % (norm, tot), explainer=k, mode=mode)
            else:
                rng_ = max(nv) - min(nv)
                bad = (rng_ != 1) if exact else abs(float(rng_) - 1.0) > 16 * EPS * (len(nv) + 1) * max(1.0, sabs)
                if bad:
                    return self.v("range-not-one", "normalised values %r have range %r" % (norm, rng_), explainer=k, mode=mode)
        # variances
        var = e.variances
        for f, val in var.items():
            if not (float(val) >= 0.0):
                return self.v("negative-variance", "variance[%r]=%r" % (f, val), explainer=k)
        # confidence bounds
        alpha = float(eff["alpha"])
        t = e.seen_samples
        prev = None
        for delta in DELTAS:
            try:
                cb = e.get_confidence_bound(delta)
            except Exception as exc:  # noqa: BLE001
                return self.v("confidence-bound-raised", "delta=%r raised %s: %s" % (delta, type(exc).__name__, exc),
                              explainer=k)
            for f in names:
                if f not in cb:
                    return self.v("confidence-bound-keys", "no bound for %r" % (f,), explainer=k)
                got = float(cb[f])
                if raw and f not in var:
                    return self.v("variance-not-tracked", "importance of %r is estimated (%r) but no variance is tracked "
                                  "for it (%r)" % (f, raw, var), explainer=k)
                vf = var[f] if f in var else 0.0
                want = (1.0 - alpha) ** t + math.sqrt(float(vf) * alpha / ((2.0 - alpha) * delta))
                if not math.isfinite(got) or got < 0.0:
                    return self.v("confidence-bound-not-finite-nonneg", "bound[%r]=%r at delta=%r" % (f, got, delta),
                                  explainer=k)
                if abs(got - want) > 1e-12 * max(abs(want), 1e-300) + 1e-300:
                    return self.v("confidence-bound-formula",
                                  "bound[%r]=%r at delta=%r, formula gives %r (alpha=%r t=%d var=%r)"
                                  % (f, got, delta, want, alpha, t, vf), explainer=k)
                if prev is not None and got > prev[f] * (1 + 1e-12) + 1e-300:
                    return self.v("confidence-bound-not-monotone", "bound[%r] grows from %r to %r as delta grows to %r"
                                  % (f, prev[f], got, delta), explainer=k)
            prev = {f: float(cb[f]) for f in names}
        self.probe("state_probed")
        return None


# ----------------------------------------------------------------------------------------------
# C17
# ----------------------------------------------------------------------------------------------

def estimates_snapshot(e, ecfg):
    if ecfg["cls"] == "sage":
        return {"importance_values": copy.deepcopy(e.importance_values), "variances": copy.deepcopy(e.variances),
                "marginal_loss": e.marginal_loss, "model_loss": e.model_loss,
                "marginal_prediction": copy.deepcopy(e.marginal_prediction)}
    if ecfg["cls"] == "pfi":
        return {"importance_values": copy.deepcopy(e.importance_values), "variances": copy.deepcopy(e.variances)}
    return {"importance_values": copy.deepcopy(e.importance_values)}


def snapshot_diff(a, b):
    for key in a:
        va, vb = a[key], b[key]
        if isinstance(va, dict):
            if set(va.keys()) != set(vb.keys()):
                return "%s: keys %r -> %r" % (key, list(va), list(vb))
            for f in va:
                if not _same(va[f], vb[f]):
                    return "%s[%r]: %r -> %r" % (key, f, va[f], vb[f])
        elif not _same(va, vb):
            return "%s: %r -> %r" % (key, va, vb)
    return None


def _same(a, b):
    if _is_exactnum(a) and _is_exactnum(b):
        return a == b
    fa, fb = float(a), float(b)
    if math.isnan(fa) and math.isnan(fb):
        return True
    return fa == fb


class C17Oracle(BaseOracle):
    """Fault atomicity: the injected exception propagates, estimates are untouched, and the resumed
    stream satisfies the C01/C02/C03 oracles (run as sub-oracles that skip the failed operation)."""
    prop = "C17"

    def __init__(self, world, plan):
        super().__init__(world, plan)
        from .batch import C05ResumedOracle
        self.subs = [C01Oracle(world, plan), C02Oracle(world, plan, lenient_first=True),
                     C03Oracle(world, plan, lenient_first=True), C05ResumedOracle(world, plan)]
        self.faults_seen = 0
        self.snap = None

    def before_op(self, ctx):
        op = ctx.op
        self.snap = None
        if op["op"] == "explain" and (op.get("fault") or op.get("expect_raise")):
            e = self.world.explainers[op["e"]]
            if e is not None:
                self.snap = estimates_snapshot(e, self.world.ecfgs[op["e"]])

    def after_op(self, ctx):
        w = self.world
        faulted = False
        if ctx.op["op"] == "explain" and ctx.explainer is not None and (w.fired is not None or
                                                                     (ctx.op.get("expect_raise") and ctx.outcome == "raise")):
            faulted = True
            self.faults_seen += 1
            k, e, ecfg = ctx.e_index, ctx.explainer, ctx.ecfg
            f = ctx.op.get("fault") or {"kind": "natural", "k": 0}
            where = fault_position(ctx.events, f)
            self.probe("fault:%s:%s:%s" % (ecfg["cls"], f["kind"], where))
            if w.fired is not None:
                if ctx.outcome != "raise":
                    return self.v("fault-swallowed", "injected %s at %s#%d did not propagate out of explain_one"
                                  % (type(w.fired).__name__, f["kind"], f["k"]), explainer=k, cls=ecfg["cls"],
                                  fault_kind=f["kind"], where=where)
                if not _in_chain(ctx.exc, w.fired):
                    return self.v("fault-replaced", "explain_one raised %r instead of the injected %r"
                                  % (ctx.exc, w.fired), explainer=k, cls=ecfg["cls"], fault_kind=f["kind"], where=where)
            after = estimates_snapshot(e, ecfg)
            diff = snapshot_diff(self.snap, after)
            if diff:
                return self.v("estimates-changed-by-failed-call",
                              "%s explain_one failed at %s (call-out %s#%d, %s) but estimates changed: %s"
                              % (ecfg["cls"], where, f["kind"], f.get("k", 0), type(ctx.exc).__name__, diff),
                              explainer=k, cls=ecfg["cls"], fault_kind=f["kind"], where=where)
        for sub in self.subs:
            v = sub.after_op(ctx)
            if v:
                if self.faults_seen == 0:
                    # a violation before any fault is not C17's to report
                    return {"property": "C17", "oracle": "__foreign__", "detail": v["oracle"]}
                v2 = self.v("resumed-stream:" + v["property"] + ":" + v["oracle"], v["detail"])
                for key in ("explainer", "cls"):
                    if key in v:
                        v2[key] = v[key]
                return v2
        for sub in self.subs:
            for name, n in sub.probes.items():
                self.probes["sub:" + name] = n
        return None


def _in_chain(exc, target):
    seen = 0
    while exc is not None and seen < 10:
        if exc is target:
            return True
        exc = exc.__cause__ or exc.__context__
        seen += 1
    return False


def fault_position(events, f):
    """Class of the crash point inside the operation, from the events recorded before the fault."""
    if f["kind"] == "natural":
        return "natural"
    fired = [e for e in events if e[0] == "F"]
    actual = fired[0][1] if fired else f["kind"]
    kinds = [e[0] for e in events if e[0] != "F"]
    if actual == "storage":
        return "storage"
    n_loss = sum(1 for k in kinds if k == "L")
    n_ii = sum(1 for k in kinds if k == "II")
    n_m = sum(1 for k in kinds if k in ("M", "MB"))
    if not kinds:
        return "first-call-out"
    if n_loss == 0:
        return "before-first-loss"
    if n_ii == 0 and n_m <= 1:
        return "before-chain"
    return "in-chain:" + actual


# ----------------------------------------------------------------------------------------------
# C06 inside explainer worlds: every imputer call an explainer makes obeys the imputer contract
# ----------------------------------------------------------------------------------------------

class C06InExplainerOracle(BaseOracle):
    prop = "C06"

    def after_op(self, ctx):
        w = self.world
        cur = None
        for ev in ctx.events:
            if ev[0] == "II":
                icfg = w.cfg["imputers"][ev[1]]
                cur = {"icfg": icfg, "subset": ev[2], "x": ev[4], "n": ev[5], "rows": ev[6] if len(ev) > 6 else None,
                       "inputs": []}
                if icfg["kind"] == "stub":
                    cur = None
            elif ev[0] == "M" and cur is not None:
                cur["inputs"].append((ev[1], ev[2]))
            elif ev[0] == "IO" and cur is not None:
                v = self.judge(cur, ev[2], ev[3] if len(ev) > 3 else None)
                if v:
                    return v
                cur = None
        return None

    def judge(self, c, preds, rows_after):
        kind = c["icfg"]["kind"]
        S, x, n = c["subset"], c["x"], c["n"]
        name = kind if kind == "default" else "marginal-" + c["icfg"].get("strategy", "joint")
        if S is None:
            return None
        if len(preds) != n:
            return self.v("prediction-count", "impute returned %d predictions, n_samples=%d" % (len(preds), n), cls=name)
        if not c["inputs"]:
            return self.v("no-model-evaluation", "impute made no model evaluation", cls=name)
        outs = [o for _, o in c["inputs"]]
        for p in preds:
            if not any(p == o for o in outs):
                return self.v("prediction-not-model-output", "prediction %r is not an output of an evaluated input" % (p,),
                              cls=name)
        rows = c["rows"][0] if c["rows"] else []
        for inp, out in c["inputs"]:
            if set(inp.keys()) != set(x.keys()):
                return self.v("input-keys", "model input keys %r, instance keys %r" % (list(inp), list(x)), cls=name)
            for f in x:
                if not any(f == s_ for s_ in S) and inp[f] != x[f]:
                    return self.v("outside-subset-changed", "feature %r outside the subset %r: instance %r, model input %r"
                                  % (f, S, x[f], inp[f]), cls=name)
            if kind == "default":
                from ..world import default_value
                for j, f in enumerate(w_names(self.world)):
                    dv = default_value(self.world, j)
                    if any(f == s_ for s_ in S) and not (inp[f] == dv and type(inp[f]) is type(dv)):
                        return self.v("not-the-default", "feature %r: model input %r, configured default %r"
                                      % (f, inp[f], dv), cls=name)
            elif c["icfg"].get("strategy", "joint") == "joint":
                if S and not any(all(f in r and inp[f] == r[f] for f in S) for r in rows):
                    return self.v("joint-not-one-row", "imputed values %r are not those of one stored row (rows %r)"
                                  % ({f: inp[f] for f in S}, rows), cls=name)
            else:
                for f in S:
                    if not any(f in r and inp[f] == r[f] for r in rows):
                        return self.v("value-not-stored", "feature %r imputed with %r which no stored row has" % (f, inp[f]),
                                      cls=name)
        if not S:
            self.probe("empty_subset_in_explainer")
        if c["rows"] is not None and rows_after is not None and c["rows"] != rows_after:
            return self.v("storage-modified", "storage content changed during impute", cls=name)
        self.probe("explainer_impute_checked")
        return None


def w_names(world):
    return world.names

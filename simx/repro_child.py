"""C18 child: executes a batch of replay configurations in THIS fresh interpreter and prints per-operation digests.

mode A: plain replay.  mode B: the same replay, but (i) other library objects are created and used - consuming global
draws - before the generators are seeded, (ii) the heap is churned and gc forced between operations (different id()
landscape), (iii) a simulated clock with offset, skew and forward/backward jumps replaces the time module's clocks."""
import gc
import hashlib
import json
import os
import random
import sys
import warnings

sys.path.insert(0, os.path.dirname(os.path.dirname(os.path.abspath(__file__))))
warnings.filterwarnings("ignore")

import numpy as np   # noqa: E402

from simx.seeds import H   # noqa: E402
from simx import seams   # noqa: E402

from ixai.explainer import IncrementalPFI   # noqa: E402
from ixai.explainer.sage import IncrementalSage, BatchSage, IntervalSage   # noqa: E402
from ixai.imputer import MarginalImputer, DefaultImputer, TreeImputer   # noqa: E402
from ixai.storage import (BatchStorage, IntervalStorage, SequenceStorage, UniformReservoirStorage,   # noqa: E402
                          GeometricReservoirStorage, TreeStorage)
from ixai.utils.wrappers.base import Wrapper   # noqa: E402
from ixai.utils.wrappers.river import RiverWrapper   # noqa: E402


class Model(Wrapper):
    def __init__(self, names):
        super().__init__(None, None)
        self.names = names

    def __call__(self, x):
        if isinstance(x, dict):
            v = 0.25
            num = lambda q: float(ord(q[0]) - 64) if isinstance(q, str) else float(q)   # string categories "A", "B", ...
            for j, n in enumerate(self.names):
                v += (0.5 + 0.37 * j) * num(x[n])
            v += 0.11 * num(x[self.names[0]]) * num(x[self.names[-1]])
            return {"output": v}
        return [self(r) for r in x]


def loss(y, p):
    return (y - p["output"]) ** 2


class LabelStub:
    """A classifier stub whose predict_one returns string labels; the label set grows as the stream advances."""

    def __init__(self, names, seed):
        self.names, self.seed, self.t = names, seed, 0

    def predict_one(self, x):
        k = min(4, 1 + self.t // 12)
        return "L%d" % (H(self.seed, "lab", tuple(sorted((str(a), str(b)) for a, b in x.items()))) % k)


def label_loss(y, p):
    labs = set(p) | {y}
    return sum(((1.0 if lab == y else 0.0) - p.get(lab, 0.0)) ** 2 for lab in sorted(labs))


def row(cfg, t):
    x = {}
    for j, n in enumerate(cfg["names"]):
        if n.startswith("c"):
            x[n] = 1 + H(cfg["stream"], "c", t, j) % 3
            if cfg.get("str_cats"):          # string categories (legal where every feature is categorical)
                x[n] = "ABCD"[(x[n] + (t // 25)) % 4]
        else:
            x[n] = round((H(cfg["stream"], "n", t, j) % 100003) / 100003.0 * (1 + j) + (3.0 if (t // 40) % 2 and j == 0 else 0.0), 6)
    y = round(float(H(cfg["stream"], "y", t) % 1000) / 100.0, 3)
    return x, y


def make_storage(cfg):
    s = cfg["storage"]
    k = s["kind"]
    if k == "uniform":
        return UniformReservoirStorage(size=s["size"], store_targets=s.get("targets", False))
    if k == "geometric":
        return GeometricReservoirStorage(size=s["size"], store_targets=s.get("targets", False),
                                         constant_probability=s.get("p"))
    if k == "interval":
        return IntervalStorage(size=s["size"], store_targets=True)
    if k == "sequence":
        return SequenceStorage(store_targets=True)
    if k == "batch":
        return BatchStorage(store_targets=True)
    cat = [n for n in cfg["names"] if n.startswith("c")]
    num = [n for n in cfg["names"] if not n.startswith("c")]
    return TreeStorage(cat_feature_names=cat, num_feature_names=num, max_depth=s.get("max_depth", 3),
                       leaf_reservoir_length=s.get("leaf", 3), grace_period=s.get("grace", 10), seed=s.get("tree_seed"))


def canon_storage(storage):
    if isinstance(storage, TreeStorage):
        out = []
        for f in sorted(storage.data_reservoirs):
            res = storage.data_reservoirs[f]
            out.append((f, sorted((k, [sorted(p.items()) for p in r.get_data()[0]]) for k, r in res.items())))
        return out
    xs, ys = storage.get_data()
    return [sorted(r.items()) for r in xs], list(ys)


def pre_activity(seed):
    """Other library objects created and used before seeding (mode B)."""
    r = random.Random(seed)
    for _ in range(r.randint(1, 4)):
        s = UniformReservoirStorage(size=r.randint(1, 4))
        for t in range(r.randint(3, 12)):
            s.update({"q": t})
    g = GeometricReservoirStorage(size=2)
    for t in range(r.randint(3, 9)):
        g.update({"q": t})
    imp = MarginalImputer(lambda x: {"output": 0.0}, "product", g)
    imp.impute(["q"], {"q": -1}, r.randint(1, 3))
    np.random.permutation(r.randint(2, 6))
    for _ in range(r.randint(0, 5)):
        random.random()
    # a RiverWrapper around a label-predicting model, used on a few instances
    rw = RiverWrapper(lambda x: "L%d" % (int(x["q"]) % 4))
    for t in range(r.randint(4, 9)):
        rw({"q": t})
    # explainers of every class built from the documented required arguments alone (default storage / imputer)
    names = ["a", "b"]
    m = Model(names)
    for cls in (IncrementalPFI, IncrementalSage):
        ex = cls(m, loss, names)
        for t in range(r.randint(2, 6)):
            ex.explain_one({"a": float(t), "b": float(t % 3)}, float(t % 2))
    bs = BatchSage(m, names, loss)
    for t in range(r.randint(2, 5)):
        bs.explain_one({"a": float(t), "b": 1.0 + t}, float(t), original_sage=bool(t % 2), verbose=False)
    iv = IntervalSage(m, names, loss, interval_length=2, storage_length=3)
    for t in range(r.randint(2, 5)):
        iv.explain_one({"a": float(t), "b": 2.0 * t}, float(t), verbose=False)
    if r.random() < 0.5:
        ts = TreeStorage(cat_feature_names=[], num_feature_names=["n0", "n1"], grace_period=5, seed=r.randint(0, 99))
        for t in range(20):
            ts.update({"n0": float(t % 7), "n1": float(t % 3)})
        TreeImputer(lambda x: {"output": 0.0}, ts).impute(["n0"], {"n0": 1.0, "n1": 2.0}, 2)


def churn(r):
    junk = [{"k%d" % i: [i] * r.randint(1, 50)} for i in range(r.randint(10, 200))]
    del junk[::2]
    if r.random() < 0.15:
        gc.collect()
    return junk


def run_config(cfg, mode):
    names = cfg["names"]
    pr = random.Random(cfg["perturb"])
    clock = None
    keep = []
    bound_model = None
    if cfg.get("model") == "river_bound":
        from river.naive_bayes import GaussianNB
        clf = GaussianNB()
        for t in range(1, 46):                       # deterministic training; labels appear progressively
            xx, _ = row(cfg, 50000 + t)
            v = float(xx[names[-1]])
            clf.learn_one(xx, "A" if v < 0.8 else ("B" if (v < 1.6 or t < 15) else "C"))
        bound_model = clf.predict_one
        if mode == "B":
            # another explainer was created on the same model object and used before (it only predicts)
            other = IncrementalSage(bound_model, label_loss, names, dynamic_setting=False)
            for t in range(1, 14):
                xx, _ = row(cfg, 60000 + t)
                other.explain_one(xx, "ABC"[t % 3])
    if mode == "B":
        pre_activity(cfg["perturb"])
        keep.append(churn(pr))
        clock = seams.SimClock(offset=pr.uniform(-1e8, 1e8), skew=pr.choice([0.5, 1.0, 3.0, 1000.0]))
        clock.install()
    try:
        random.seed(cfg["seeds"][0])
        np.random.seed(cfg["seeds"][1])
        model = Model(names)
        loss_fn = loss
        stub = None
        if cfg.get("model") == "riverlabel":
            stub = LabelStub(names, cfg["stream"])
            model = RiverWrapper(stub.predict_one)
            loss_fn = label_loss
        elif cfg.get("model") == "river_bound":
            # a REAL river classifier handed over as a bare bound method (`clf.predict_one`): the library wraps it itself
            model = bound_model
            loss_fn = label_loss
        storage = make_storage(cfg)
        ik = cfg.get("imputer")
        imputer = None
        if ik in ("marginal-joint", "marginal-product"):
            imputer = MarginalImputer(model, ik.split("-")[1], storage)
        elif ik == "default":
            imputer = DefaultImputer(model, {n: 0.5 for n in names})
        elif ik in ("tree", "tree-storage", "tree-direct"):
            imputer = TreeImputer(model, storage, direct_predict_numeric=(ik == "tree-direct"),
                                  use_storage=(ik == "tree-storage"))
        ek = cfg.get("explainer")
        e = None
        kw = {}
        if imputer is not None:
            kw["imputer"] = imputer
        skw = {"storage": storage}
        if cfg.get("default_storage"):
            skw = {}          # the explainer's own default storage (and default imputer)
            kw = {}
        if ek in ("pfi", "sage"):
            cls = IncrementalPFI if ek == "pfi" else IncrementalSage
            e = cls(model_function=model, loss_function=loss_fn, feature_names=names,
                    dynamic_setting=cfg.get("dynamic", True), smoothing_alpha=cfg.get("alpha", 0.1),
                    n_inner_samples=cfg.get("n_inner", 1), **skw, **kw)
        elif ek == "batch":
            e = BatchSage(model_function=model, feature_names=names, loss_function=loss_fn,
                          n_inner_samples=cfg.get("n_inner", 1), **skw, **kw)
        elif ek == "interval":
            e = IntervalSage(model_function=model, feature_names=names, loss_function=loss_fn,
                             n_inner_samples=cfg.get("n_inner", 1), interval_length=cfg.get("interval_length", 3),
                             **({"storage_length": cfg["storage"].get("size", 3)} if not skw else skw), **kw)
        digests = []
        retained = []
        buffer_x = {}
        for t in range(1, cfg["T"] + 1):
            x, y = row(cfg, t)
            if stub is not None:
                stub.t = t
                y = "L%d" % (H(cfg["stream"], "yl", t) % 3)
            elif bound_model is not None:
                y = "ABC"[H(cfg["stream"], "yl", t) % 3]
            if mode == "B":
                retained.append(x)      # object identities: in A observations die young (addresses are reused),
                                        # in B every observation object stays alive (all identities distinct)
            vals = None
            if e is None:
                storage.update(x, y)
                if imputer is not None and t > 8:
                    preds = imputer.impute(names[: 1 + t % len(names)], x, 2)
                    vals = {"p%d:%s" % (i, k_): v_ for i, p in enumerate(preds) for k_, v_ in p.items()}
            elif ek == "batch":
                if t % 5 == 0 or t == cfg["T"]:
                    vals = e.explain_one(x, y, original_sage=bool(t % 2), verbose=False)
                else:
                    e.update_storage(x, y)
            elif ek == "interval":
                vals = e.explain_one(x, y, verbose=False)
            else:
                # runs of consecutive update_storage=False calls (the storage length does not change in between)
                us = (t % 7 not in (3, 4, 5)) or t < 10
                if mode == "A" and not us:
                    # object identities, made certain instead of left to the allocator: in A the caller refills ONE
                    # buffer dict in place for the observations it does not hand to the storage (same id(), other
                    # content); in B every observation is a distinct, retained object
                    buffer_x.clear()
                    buffer_x.update(x)
                    x = buffer_x
                vals = e.explain_one(x, y, update_storage=us)
            h = hashlib.blake2b(digest_size=12)
            if not cfg.get("default_storage"):
                h.update(repr(canon_storage(storage)).encode())
            if vals:
                h.update(repr(sorted((repr(k), float(v).hex()) for k, v in vals.items())).encode())
                if ek in ("pfi", "sage"):
                    # what is derived from the estimates is a result too
                    for nmode in ("sum", "delta"):
                        nv = e.get_normalized_importance_values(nmode)
                        h.update(repr(sorted((repr(k), float(v).hex()) for k, v in nv.items())).encode())
            digests.append(h.hexdigest())
            if mode == "B":
                if pr.random() < 0.5:
                    keep.append(churn(pr))
                    if len(keep) > 3:
                        keep.pop(0)
                if pr.random() < 0.3:
                    clock.jump(pr.choice([-86400.0, -1.0, 0.5, 3600.0, 1e7]))
        return {"digests": digests, "clock_reads": clock.reads if clock else 0}
    finally:
        if clock is not None:
            clock.remove()


def main():
    with open(sys.argv[1]) as f:
        job = json.load(f)
    out = []
    for cfg in job["configs"]:
        try:
            out.append(run_config(cfg, job["mode"]))
        except Exception as exc:  # noqa: BLE001
            out.append({"error": "%s: %s" % (type(exc).__name__, str(exc)[:200])})
    sys.stdout.write("RESULT " + json.dumps(out) + "\n")


if __name__ == "__main__":
    main()

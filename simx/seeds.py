"""Seed derivation: one integer (VERIF_SEED) decides everything."""
import hashlib
import os
import random

DEFAULT_SEED = 20261002


def verif_seed():
    v = os.environ.get("VERIF_SEED", "")
    try:
        return int(v)
    except ValueError:
        return DEFAULT_SEED


def derive(*parts):
    """64-bit integer from the parts (stable across processes and interpreter versions)."""
    h = hashlib.sha256(("|".join(repr(p) for p in parts)).encode()).digest()
    return int.from_bytes(h[:8], "big")


def run_rng(seed, prop, tier, run_index):
    """Private generator for one run; never shared with the library under test."""
    return random.Random(derive(seed, prop, tier, run_index))


def H(*parts):
    """Deterministic 64-bit hash of a tuple of reprs (used by stub models/losses)."""
    h = hashlib.blake2b(repr(parts).encode(), digest_size=8).digest()
    return int.from_bytes(h, "big")

"""debug helper: python -m simx.debug C01 quick <idx>  (prints plan and result)"""
import json, sys, os
sys.path.insert(0, os.path.dirname(os.path.dirname(os.path.abspath(__file__))))
import warnings; warnings.filterwarnings("ignore")
from simx.main import registry
from simx import seeds
from simx.driver import _json_default
def main():
    reg = registry()
    c = reg[sys.argv[1]]()
    tier = sys.argv[2]
    if sys.argv[3] == "find":
        pat = sys.argv[4]
        n = c.n_runs(tier)
        for i in range(n):
            plan = c.gen(seeds.verif_seed(), tier, i)
            res = c.run(plan)
            if (res.get("aborted") and pat in res["aborted"]) or (not res["ok"] and pat in json.dumps(res["violation"], default=_json_default)):
                print("idx", i, res.get("aborted"), res.get("violation"))
                if len(sys.argv) > 5: continue
                print(json.dumps(plan, default=_json_default)); break
        return
    idx = int(sys.argv[3])
    plan = c.gen(seeds.verif_seed(), tier, idx)
    print(json.dumps(plan, default=_json_default))
    res = c.run(plan)
    res.pop("world", None)
    print(json.dumps(res, default=_json_default, indent=1))
main()

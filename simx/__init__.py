"""simx - deterministic simulation with fault injection for iXAI (see /verif/DESIGN.md)."""

"""CLI: main.py <property> <quick|thorough>  |  main.py --replay <file>"""
import json
import os
import sys

HERE = os.path.dirname(os.path.abspath(__file__))
sys.path.insert(0, os.path.dirname(HERE))


def ensure_env():
    """Re-exec with a fixed hash seed so set iteration order is part of the fixed configuration."""
    if os.environ.get("PYTHONHASHSEED") != os.environ.get("VERIF_HASHSEED", "0"):
        env = dict(os.environ)
        env["PYTHONHASHSEED"] = os.environ.get("VERIF_HASHSEED", "0")
        os.execve(sys.executable, [sys.executable] + sys.argv, env)


def registry():
    from simx import checks_explainers as ce
    reg = {}
    for cls in (ce.C01Check, ce.C02Check, ce.C03Check):
        reg[cls.prop] = cls
    for modname in ("checks_contract", "checks_batch", "checks_storage", "checks_imputer", "checks_stat",
                    "checks_metric", "checks_repro", "checks_tree"):
        try:
            mod = __import__("simx." + modname, fromlist=["CHECKS"])
        except ModuleNotFoundError as e:
            if modname in str(e):
                continue
            raise
        for cls in mod.CHECKS:
            reg[cls.prop] = cls
    return reg


def main(argv):
    ensure_env()
    import warnings
    warnings.filterwarnings("ignore")
    from simx import driver
    import ixai
    repo = os.environ.get("VERIF_REPO", "/repo")
    if not os.path.realpath(ixai.__file__).startswith(os.path.realpath(repo) + os.sep):
        driver.harness_error("ixai imported from %s, not from %s" % (ixai.__file__, repo))
    reg = registry()
    if argv and argv[0] == "--replay":
        with open(argv[1]) as f:
            rep = json.load(f)
        check = reg[rep["property"]]()
        return driver.replay_file(check, argv[1])
    if argv and argv[0] == "--digests":
        # determinism self-test support: per-run digests/verdicts of the first n runs, as JSON
        from simx import seeds
        import multiprocessing
        from concurrent.futures import ProcessPoolExecutor
        check = reg[argv[1]]()
        tier, n = argv[2], int(argv[3])
        n = min(n, check.n_runs(tier))
        driver._CHECK = check
        workers = int(os.environ.get("VERIF_WORKERS", "4"))
        chunk = max(1, n // (workers * 3))
        tasks = [(seeds.verif_seed(), tier, list(range(i, min(n, i + chunk)))) for i in range(0, n, chunk)]
        os.environ["SIMX_KEEP_DIGEST_LIST"] = "1"
        with ProcessPoolExecutor(max_workers=workers, mp_context=multiprocessing.get_context("fork")) as ex:
            recs = [r for out in ex.map(driver._worker, tasks) for r in out["digest_list"]]
        recs.sort(key=lambda r: r[0])
        print("DIGESTS " + json.dumps(recs))
        return 0
    if len(argv) < 1 or argv[0] not in reg:
        print("usage: main.py <%s> <quick|thorough>" % "|".join(sorted(reg)))
        return 3
    tier = argv[1] if len(argv) > 1 else os.environ.get("VERIF_TIER", "quick")
    if tier not in ("quick", "thorough"):
        tier = "quick"
    check = reg[argv[0]]()
    return driver.run_check(check, tier)


if __name__ == "__main__":
    try:
        code = main(sys.argv[1:])
    except SystemExit:
        raise
    except BaseException:  # noqa: BLE001
        import traceback
        traceback.print_exc()
        print("HARNESS-ERROR: uncaught exception in the harness")
        code = 3
    sys.stdout.flush()
    os._exit(code)

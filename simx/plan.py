"""Swarm configuration and plan generators for explainer worlds.

Everything is drawn from the run's private generator *before* anything executes; the result is plain
JSON-able data.  Generators only produce configurations the documentation supports (section 7.3 of
DESIGN.md): e.g. no estimating step on an empty storage unless declared as a natural fault.
"""
from .world import name_to_json

ALPHAS = ([1, 1], [1, 2], [1, 3], [1, 10], [1, 1000], [2, 3], [9, 10])


def wchoice(rng, items):
    """items: list of (value, weight)."""
    tot = sum(w for _, w in items)
    r = rng.random() * tot
    for v, w in items:
        r -= w
        if r < 0:
            return v
    return items[-1][0]


def gen_names(rng, d, kind=None):
    kind = kind or wchoice(rng, [("str", 50), ("int", 15), ("float", 10), ("mixed", 25)])
    if kind == "str":
        pool = ["a", "b", "c", "d", "e", "f", "g", "h", "i", "j"]
        rng.shuffle(pool)
        return pool[:d], kind
    if kind == "int":
        pool = list(range(0, 12))
        rng.shuffle(pool)
        return pool[:d], kind
    if kind == "float":
        pool = [0.5, 1.5, 2.5, 3.25, 4.75, 5.125, 7.5, 8.25, 9.5, 11.75]
        rng.shuffle(pool)
        return [name_to_json(v) for v in pool[:d]], kind
    # mixed: at least one str and one number when d >= 2 (all pairwise distinct under ==)
    pool = ["a", "b", "c", 1, 2, 3, 0.5, 2.5, "x1", "y2", 7, 4.5]
    while True:
        rng.shuffle(pool)
        pick = pool[:d]
        if d < 2 or (any(isinstance(p, str) for p in pick) and any(not isinstance(p, str) for p in pick)):
            return [name_to_json(v) for v in pick], kind


def gen_storage(rng, kind=None):
    kind = kind or wchoice(rng, [("uniform", 30), ("geometric", 30), ("interval", 15), ("sequence", 8), ("batch", 17)])
    s = {"kind": kind}
    if kind in ("uniform", "geometric", "interval"):
        s["size"] = wchoice(rng, [(1, 15), (2, 25), (3, 25), (4, 15), (6, 10), (10, 10)])
    if rng.random() < 0.7:
        s["targets"] = rng.random() < 0.5
    if kind == "geometric":
        p = wchoice(rng, [(None, 40), ([0, 1], 10), ([3, 10], 25), ([1, 1], 25)])
        if p is not None:
            s["p"] = p
    return s


class Builder:
    """Tracks what the generated schedule has done so far, to keep plans inside the supported space."""

    def __init__(self, rng, cfg):
        self.rng = rng
        self.cfg = cfg
        self.ops = []
        self.next_tag = 1
        self.used_tags = []
        self.st_count = [0] * len(cfg["storages"])     # updates per explicit storage
        self.own_count = {}                             # explainer index -> updates of its own storage
        self.calls = {}                                 # explainer index -> explain calls
        self.interval_calls = {}

    def rs(self):
        return self.rng.getrandbits(48)

    def fresh_tag(self):
        t = self.next_tag
        self.next_tag += 1
        self.used_tags.append(t)
        return t

    def pick_tag(self, p_repeat=0.06):
        if self.used_tags and self.rng.random() < p_repeat:
            return self.rng.choice(self.used_tags)
        return self.fresh_tag()

    def tape_spec(self):
        if self.cfg.get("rng") != "tape":
            return None
        r = self.rng
        spec = {}
        if r.random() < 0.7:
            spec["r"] = [r.choice(["real", "first", "last"]) for _ in range(r.randint(1, 4))]
        if r.random() < 0.7:
            spec["p"] = [r.choice(["real", "id", "rev", "rot"])]
        if r.random() < 0.6:
            spec["u"] = [r.choice(["real", "tiny", "lo", "mid", "hi"]) for _ in range(r.randint(1, 4))]
        return spec or None

    def imputer_storage(self, k):
        """('explicit', sid) | ('own', k) | None - the storage the explainer's imputer samples from."""
        ecfg = self.cfg["explainers"][k]
        if "imputer" in ecfg:
            icfg = self.cfg["imputers"][ecfg["imputer"]]
            if icfg["kind"] == "marginal":
                return ("explicit", icfg["storage"])
            return None
        if "storage" in ecfg:
            return ("explicit", ecfg["storage"])
        return ("own", k)

    def storage_count(self, ref):
        if ref is None:
            return 1
        if ref[0] == "explicit":
            return self.st_count[ref[1]]
        return self.own_count.get(ref[1], 0)

    def ecfg(self, k):
        return self.cfg["explainers"][k]

    def note_update(self, k):
        ecfg = self.ecfg(k)
        if "storage" in ecfg:
            self.st_count[ecfg["storage"]] += 1
        else:
            self.own_count[k] = self.own_count.get(k, 0) + 1

    def add(self, op):
        op.setdefault("rs", self.rs())
        ts = self.tape_spec()
        if ts:
            op["tape"] = ts
        self.ops.append(op)
        return op

    def store(self, ref):
        tag = self.fresh_tag()
        if ref[0] == "explicit":
            self.add({"op": "store", "s": ref[1], "tag": tag})
            self.st_count[ref[1]] += 1
        else:
            self.add({"op": "store", "e": ref[1], "tag": tag})
            self.own_count[ref[1]] = self.own_count.get(ref[1], 0) + 1

    def natural_fault_prefix(self, k):
        """Declared natural faults: estimating steps on a still empty storage.  The unchanged library raises
        (random.randrange(0)) and leaves every estimate untouched; the operations are marked expect_raise, so the
        executor tolerates either outcome and the oracles judge what the explainer looks like afterwards."""
        r = self.rng
        for j in range(r.randint(2, 3)):
            op = {"op": "explain", "e": k, "tag": self.fresh_tag(), "us": False}
            if j >= 1:
                op["expect_raise"] = True
            self.add(op)
            self.calls[k] = self.calls.get(k, 0) + 1

    def explain(self, k, allow_us_false=True, p_override=0.2, extra=None):
        r = self.rng
        ecfg = self.ecfg(k)
        cls = ecfg["cls"]
        calls = self.calls.get(k, 0)
        op = {"op": "explain", "e": k}
        us = True
        if allow_us_false and cls in ("pfi", "sage", "interval"):
            p_false = ecfg.get("_p_us_false", 0.15)
            if r.random() < p_false:
                us = False
        ref = self.imputer_storage(k)
        if cls in ("pfi", "sage"):
            if calls >= 1 and self.storage_count(ref) == 0:
                self.store(ref)
        elif cls == "interval":
            # a recomputation needs a non-empty window (which is also what the default imputer samples)
            own = ("explicit", ecfg["storage"]) if "storage" in ecfg else ("own", k)
            if not us and self.storage_count(own) == 0:
                us = True
            if ref is not None and ref != own and self.storage_count(ref) == 0:
                self.store(ref)
        elif cls == "batch":
            if ref is not None and ref[0] == "explicit" and "storage" in ecfg and ref[1] != ecfg["storage"] \
                    and self.storage_count(ref) == 0:
                self.store(ref)
        op["tag"] = self.pick_tag()
        if cls == "batch":
            us = True
            if r.random() < 0.4:
                op["original"] = True
        if not us:
            op["us"] = False
        elif cls != "batch" and r.random() < 0.2:
            op["us"] = True
        if r.random() < p_override:
            op["n_inner"] = r.randint(1, 4)
            if r.random() < 0.25:
                op["n_inner_type"] = r.choice(["int64", "int32", "uint8"])
        if cls == "interval" and r.random() < 0.25:
            op["force"] = True
        if extra:
            op.update(extra)
        self.add(op)
        self.calls[k] = calls + 1
        if us:
            self.note_update(k)
        return op


def gen_model(rng, d, arith, allow=None):
    fams = [("linear", 28), ("hash", 28), ("inter", 8), ("const", 5), ("multi", 18), ("zerosum", 5), ("riverlabel", 8),
            ("riverint", 6 if arith in ("float", "exact") else 0)]
    if arith == "fraction":
        fams = [f for f in fams if f[0] in ("linear", "hash", "inter", "const", "multi", "zerosum")]
    if arith in ("npfloat", "npfloat32"):
        fams = [f for f in fams if f[0] != "zerosum"]
    if arith == "npfloat32":
        # single precision overflows at 3.4e38: the product model's squared losses (and their squares, the variances)
        # would leave the range for reasons that have nothing to do with the library
        fams = [f for f in fams if f[0] != "inter"]
    if arith in ("exact", "fraction"):
        # the real RiverWrapper emits Python floats (0./1.), so the library averages them in float arithmetic
        fams = [f for f in fams if f[0] != "riverlabel"]
    if allow:
        fams = [f for f in fams if f[0] in allow]
    fam = wchoice(rng, fams)
    m = {"family": fam, "seed": rng.getrandbits(32)}
    if fam in ("multi", "riverlabel"):
        m["labels"] = rng.randint(2, 4)
        m["grow"] = rng.random() < 0.7
        m["omit"] = fam == "multi" and rng.random() < 0.5
        if arith in ("npfloat", "npfloat32"):
            # NumPy scalars do not raise on division by zero (C12's territory, not claimed): keep the label
            # values strictly positive so the normaliser of the marginal prediction cannot be zero
            m["omit"] = False
            m["lo"] = 1
    if d >= 2 and rng.random() < 0.3 and fam != "const":
        k = rng.randint(1, max(1, d - 1))
        m["ignore"] = sorted(rng.sample(range(d), k))
    if rng.random() < 0.15 and fam not in ("riverlabel", "riverint"):
        m["style"] = "plain"
    return m


def gen_loss(rng, arith, model):
    if model["family"] == "riverint":
        # the deployment of the repository's examples: a real river metric object as (shared) loss.  Accuracy is a
        # DISCONTINUOUS function of the prediction, so it is only used where every prediction mean is reproduced exactly
        # (exact-rational worlds); float worlds use the continuous MSE / MAE.
        metric = "Accuracy" if arith == "exact" else rng.choice(["MSE", "MAE"])
        return {"family": "river", "metric": metric, "seed": 0, "sig": "pos"}
    if arith == "float" and model["family"] in ("linear", "hash", "inter", "const") and rng.random() < 0.15:
        return {"family": "river", "metric": rng.choice(["MSE", "MAE"]), "seed": 0, "sig": "pos"}
    if arith == "fraction":
        fam = wchoice(rng, [("hash", 40), ("sq", 30), ("abs", 15), ("lin", 15)])
    elif arith == "exact":
        fam = wchoice(rng, [("hash", 36), ("sq", 28), ("abs", 14), ("lin", 14), ("bool01", 8)])
    else:
        fam = wchoice(rng, [("sq", 50), ("abs", 25), ("lin", 25)])
    sig = wchoice(rng, [("pos", 34), ("other", 10), ("posonly", 10), ("named", 10), ("callable", 8), ("varargs", 5),
                        ("y_varargs", 4), ("decorated", 5), ("partial", 5), ("method", 5), ("defaulted", 4)])
    out = {"family": fam, "seed": rng.getrandbits(32), "sig": sig}
    # tiny-scale losses: a deviation must not hide below an absolute threshold
    if fam == "bool01":
        return out
    if arith in ("exact", "fraction"):
        k = wchoice(rng, [(0, 75), (6, 10), (12, 10), (20, 5)])
    elif arith == "float":
        k = wchoice(rng, [(0, 85), (6, 15)])
    else:
        k = 0
    if k:
        out["scale_exp"] = k
    return out


def gen_incremental(rng, cls, arith, storages, imputers, shared=None):
    e = {"cls": cls}
    if shared is not None:
        e.update(shared)
    else:
        if storages and rng.random() < 0.85:
            e["storage"] = rng.randrange(len(storages))
        if imputers and rng.random() < 0.8:
            e["imputer"] = rng.randrange(len(imputers))
    mode = wchoice(rng, [("static", 35), ("dynamic", 50), ("default", 15)])
    if mode == "static":
        e["dynamic"] = False
        if rng.random() < 0.3:
            e["alpha"] = rng.choice(ALPHAS)
    elif mode == "dynamic":
        e["dynamic"] = True
        if rng.random() < 0.85 or cls == "pfi":
            a = rng.choice(ALPHAS)
            if rng.random() < 0.2:
                den = rng.randint(2, 40)
                a = [rng.randint(1, den), den]
            e["alpha"] = a
    if rng.random() < 0.7:
        e["n_inner"] = wchoice(rng, [(1, 35), (2, 30), (3, 20), (4, 15)])
        if rng.random() < 0.12:
            e["n_inner_type"] = rng.choice(["int64", "int16"])
    if cls == "sage" and rng.random() < 0.45:
        e["lbib"] = rng.random() < 0.65
    if rng.random() < 0.2:
        e["positional"] = True
    return e


def gen_world_config(rng, focus, arith=None, d=None, names_kind=None):
    """focus: 'sage' | 'pfi' | 'mixed'"""
    arith = arith or wchoice(rng, [("exact", 56), ("fraction", 7), ("float", 27), ("npfloat", 10)])
    d = d or wchoice(rng, [(1, 10), (2, 25), (3, 30), (4, 20), (5, 10), (6, 5)])
    names, nk = gen_names(rng, d, names_kind)
    model = gen_model(rng, d, arith)
    loss = gen_loss(rng, arith, model)
    n_st = wchoice(rng, [(1, 70), (2, 30)])
    storages = [gen_storage(rng) for _ in range(n_st)]
    imputers = []
    for _ in range(wchoice(rng, [(1, 65), (2, 35)])):
        kind = wchoice(rng, [("marginal", 60), ("default", 12), ("stub", 28)])
        ic = {"kind": kind}
        if kind == "marginal":
            ic["strategy"] = "joint" if rng.random() < 0.55 else "product"
            ic["storage"] = rng.randrange(n_st)
        elif kind == "stub":
            ic["seed"] = rng.getrandbits(32)
        imputers.append(ic)
    explainers = []
    layout = wchoice(rng, [("single", 45), ("pair", 25), ("example", 30)])
    main = "sage" if focus == "sage" else "pfi" if focus == "pfi" else rng.choice(["sage", "pfi"])
    other = "pfi" if main == "sage" else "sage"
    if layout == "single":
        explainers.append(gen_incremental(rng, main, arith, storages, imputers))
    elif layout == "pair":
        explainers.append(gen_incremental(rng, main, arith, storages, imputers))
        explainers.append(gen_incremental(rng, rng.choice([main, other]), arith, storages, imputers))
    else:
        # the deployment of examples/agrawal_accuracy_loss.py: sage + pfi(update_storage=False) + interval sage
        # sharing one model, loss, storage and imputer
        mi = [i for i, ic in enumerate(imputers) if ic["kind"] == "marginal"]
        if mi:
            imp = mi[0]
            shared = {"storage": imputers[imp]["storage"], "imputer": imp}
        else:
            shared = {"storage": 0, "imputer": 0}
        a = gen_incremental(rng, "sage", arith, storages, imputers, shared)
        b = gen_incremental(rng, "pfi", arith, storages, imputers, shared)
        b["_p_us_false"] = 1.0
        explainers.extend([a, b] if main == "sage" else [b, a])
        if main != "sage":
            a["_p_us_false"], b["_p_us_false"] = 1.0, 0.15
        if rng.random() < 0.6:
            iv = {"cls": "interval", "interval_length": rng.randint(1, 4), "storage_length": rng.randint(1, 5)}
            if rng.random() < 0.5:
                iv["n_inner"] = rng.randint(1, 2)
            explainers.append(iv)
    if arith == "float" and all(e["cls"] == "pfi" for e in explainers) and \
            model["family"] in ("linear", "hash", "inter", "const") and rng.random() < 0.12:
        loss = {"family": "npint16", "seed": 0, "sig": loss.get("sig", "pos")}
    if arith == "exact" and loss["family"] in ("river", "bool01"):
        # a discontinuous loss needs exactly reproducible running means: no default (double) alpha
        for e in explainers:
            if e["cls"] in ("pfi", "sage") and e.get("dynamic", True) and "alpha" not in e:
                e["alpha"] = rng.choice(ALPHAS)
    if arith == "fraction":
        # plain Fractions meet a double only through the default alpha: give every dynamic explainer an exact one
        for e in explainers:
            if e["cls"] in ("pfi", "sage") and e.get("dynamic", True) and "alpha" not in e:
                e["alpha"] = rng.choice(ALPHAS)
        model.pop("style", None)
    if arith == "exact" and loss["family"] == "hash" and any(
            e["cls"] in ("pfi", "sage") and e.get("dynamic", True) and "alpha" not in e for e in explainers):
        # default alpha is the double 0.001: the library's own weights are rounded, so values that feed the
        # loss (marginal prediction) are only reproducible to rounding - a discontinuous loss cannot be used
        loss["family"] = "sq"
    # explaining only a subset of the features the model reads (the others are simply never imputed)
    if d >= 3:
        for e in explainers:
            if e["cls"] in ("pfi", "sage") and rng.random() < 0.1:
                k = rng.randint(1, d - 1)
                e["names_subset"] = sorted(rng.sample(range(d), k))
    cfg = {
        "key_order": "shuffled" if rng.random() < 0.3 else "names",
        "arith": arith, "names": names, "names_kind": nk, "seed": rng.getrandbits(32),
        "values": "unique" if rng.random() < 0.8 else "ties",
        "model": model, "loss": loss, "storages": storages, "imputers": imputers, "explainers": explainers,
        "rng": wchoice(rng, [("perop", 60), ("tape", 22), ("once", 18)]),
    }
    return cfg


def gen_schedule(rng, cfg, T=None, mix=None, p_natural=0.08):
    b = Builder(rng, cfg)
    T = T or wchoice(rng, [(rng.randint(3, 8), 30), (rng.randint(8, 20), 40), (rng.randint(20, 40), 22),
                           (rng.randint(40, 60), 8)])
    mix = mix or [("explain", 70), ("learn", 10), ("store", 8), ("observe", 12)]
    n_e = len(cfg["explainers"])
    example_layout = any(e.get("_p_us_false") == 1.0 for e in cfg["explainers"])
    if rng.random() < p_natural:
        ks = [k for k, e in enumerate(cfg["explainers"]) if e["cls"] in ("pfi", "sage")
              and b.imputer_storage(k) is not None and b.storage_count(b.imputer_storage(k)) == 0]
        if ks:
            b.natural_fault_prefix(rng.choice(ks))
    while len(b.ops) < T:
        kind = wchoice(rng, mix)
        if kind == "explain":
            if example_layout and rng.random() < 0.7:
                # one round of the example loop: every explainer sees the same observation
                tag = b.fresh_tag()
                for k in range(n_e):
                    op = b.explain(k)
                    op["tag"] = tag
                if rng.random() < 0.8:
                    b.add({"op": "learn"})
            else:
                b.explain(rng.randrange(n_e))
        elif kind == "learn":
            b.add({"op": "learn"})
        elif kind == "store":
            if cfg["storages"] and rng.random() < 0.7:
                b.store(("explicit", rng.randrange(len(cfg["storages"]))))
            else:
                k = rng.randrange(n_e)
                if cfg["explainers"][k]["cls"] in ("pfi", "sage"):
                    if "storage" in cfg["explainers"][k]:
                        tag = b.fresh_tag()
                        b.add({"op": "store", "e": k, "tag": tag})
                        b.st_count[cfg["explainers"][k]["storage"]] += 1
                    else:
                        b.store(("own", k))
        elif kind == "observe":
            b.add({"op": "observe", "e": rng.randrange(n_e)})
    return b.ops


def strip_private(cfg):
    """Drop generator-private keys (leading underscore) from explainer configs."""
    for e in cfg["explainers"]:
        for k in [k for k in e if k.startswith("_")]:
            del e[k]
    return cfg


def gen_explainer_plan(rng, prop, focus, long=False, **kw):
    if long:
        # thorough-tier stratum: long histories and more features (float arithmetic keeps the numbers small)
        kw.setdefault("arith", wchoice(rng, [("float", 70), ("npfloat", 30)]))
        kw.setdefault("d", rng.randint(4, 8))
    cfg = gen_world_config(rng, focus, **kw)
    ops = gen_schedule(rng, cfg, T=rng.randint(100, 320) if long else None)
    strip_private(cfg)
    return {"property": prop, "kind": "explainer", "config": cfg, "ops": ops, "rs0": rng.getrandbits(48)}


# ----------------------------------------------------------------------------------------------
# batch / interval SAGE worlds (C05, and strata of C15 / C17)
# ----------------------------------------------------------------------------------------------

def gen_batch_config(rng, arith=None, names_kind=None, classes=None):
    arith = arith or wchoice(rng, [("exact", 62), ("fraction", 8), ("float", 30)])
    d = wchoice(rng, [(1, 10), (2, 30), (3, 30), (4, 20), (5, 10)])
    names, nk = gen_names(rng, d, names_kind)
    model = gen_model(rng, d, arith, allow=("linear", "hash", "inter", "const", "multi", "zerosum"))
    model.pop("ignore", None)
    loss = gen_loss(rng, arith, model)
    storages, imputers, explainers = [], [], []
    n_e = wchoice(rng, [(1, 70), (2, 30)])
    for _ in range(n_e):
        cls = rng.choice(classes or ["batch", "interval"])
        e = {"cls": cls}
        if cls == "interval":
            e["interval_length"] = rng.randint(1, 7)
            e["storage_length"] = rng.randint(1, 7)
            if rng.random() < 0.5:
                # an explicit storage decides the window; half of the time its size differs from storage_length
                size = e["storage_length"] if rng.random() < 0.5 else rng.randint(1, 7)
                storages.append({"kind": "interval", "size": size, "targets": True})
                e["storage"] = len(storages) - 1
        else:
            if rng.random() < 0.4:
                kind = wchoice(rng, [("batch", 50), ("interval", 25), ("uniform", 15), ("geometric", 10)])
                s = {"kind": kind, "targets": True}
                if kind != "batch":
                    s["size"] = rng.randint(1, 6)
                storages.append(s)
                e["storage"] = len(storages) - 1
        if rng.random() < 0.6:
            e["n_inner"] = rng.randint(1, 3)
        # explicit imputer: only on the explainer's own explicit storage, or a stub
        if "storage" in e and rng.random() < 0.6:
            imputers.append({"kind": "marginal", "strategy": "joint" if rng.random() < 0.5 else "product",
                             "storage": e["storage"]})
            e["imputer"] = len(imputers) - 1
        elif rng.random() < 0.25:
            imputers.append({"kind": "stub", "seed": rng.getrandbits(32)})
            e["imputer"] = len(imputers) - 1
        explainers.append(e)
    return {"arith": arith, "names": names, "names_kind": nk, "seed": rng.getrandbits(32),
            "values": "unique" if rng.random() < 0.7 else "unique0",
            "model": model, "loss": loss, "storages": storages, "imputers": imputers, "explainers": explainers,
            "rng": wchoice(rng, [("perop", 60), ("tape", 25), ("once", 15)]), "record_draws": True}


def gen_batch_schedule(rng, cfg, T=None, big=False):
    b = Builder(rng, cfg)
    if big:
        # a data set of several dozen rows (chunked / vectorised code paths only show beyond small sizes)
        for k, e in enumerate(cfg["explainers"]):
            if e["cls"] == "batch":
                own = ("explicit", e["storage"]) if "storage" in e else ("own", k)
                for _ in range(rng.randint(30, 75)):
                    b.store(own)
    T = T or wchoice(rng, [(rng.randint(3, 8), 35), (rng.randint(8, 20), 45), (rng.randint(20, 40), 20)])
    n_e = len(cfg["explainers"])
    while len(b.ops) < T:
        k = rng.randrange(n_e)
        e = cfg["explainers"][k]
        kind = wchoice(rng, [("explain", 62), ("many", 12 if e["cls"] == "batch" else 0), ("learn", 8),
                             ("store", 8), ("observe", 10)])
        if kind == "explain":
            b.explain(k)
        elif kind == "many":
            own = ("explicit", e["storage"]) if "storage" in e else ("own", k)
            original = rng.random() < 0.45
            if not original and b.storage_count(own) == 0 and ("imputer" not in e or
                                                                cfg["imputers"][e["imputer"]]["kind"] == "marginal"):
                b.store(own)
            tags = [b.pick_tag(0.3) for _ in range(rng.randint(1, 6))]
            op = {"op": "many_orig" if original else "many", "e": k, "tags": tags}
            if rng.random() < 0.3:
                op["n_inner"] = rng.randint(1, 3)
            b.add(op)
        elif kind == "learn":
            b.add({"op": "learn"})
        elif kind == "store":
            if "storage" in e:
                tag = b.fresh_tag()
                b.add({"op": "store", "e": k, "tag": tag})
                b.st_count[e["storage"]] += 1
            else:
                b.store(("own", k))
        else:
            b.add({"op": "observe", "e": k})
    return b.ops


def gen_long_interval_plan(rng, prop, names_kind=None):
    """An IntervalSage whose interval_length arrives as a narrow NumPy integer, on a stream long enough for the
    call ordinal to pass the range of that type (128 / 256 calls)."""
    cfg = gen_batch_config(rng, arith="float", names_kind=names_kind, classes=["interval"])
    cfg["explainers"] = cfg["explainers"][:1]
    e = cfg["explainers"][0]
    e["interval_length"] = rng.randint(2, 7)
    e["interval_length_type"] = rng.choice(["int8", "uint8", "int8", "uint8", "int16", "int64"])
    e["n_inner"] = 1
    e["storage_length"] = rng.randint(1, 4)
    if "storage" in e:
        cfg["storages"][e["storage"]]["size"] = rng.randint(1, 4)
    b = Builder(rng, cfg)
    T = rng.randint(140, 300)
    while len(b.ops) < T:
        if rng.random() < 0.93:
            b.explain(0)
        else:
            b.add({"op": "observe", "e": 0})
    strip_private(cfg)
    return {"property": prop, "kind": "explainer", "config": cfg, "ops": b.ops, "rs0": rng.getrandbits(48)}


def gen_max_inner_plan(rng, prop, names_kind=None):
    """n_inner_samples at the top of a narrow NumPy integer type (127 as int8, 255 as uint8) on a few rows."""
    cfg = gen_batch_config(rng, arith="float", names_kind=names_kind, classes=["batch"])
    cfg["explainers"] = cfg["explainers"][:1]
    cfg["names"] = cfg["names"][:2]
    e = cfg["explainers"][0]
    e.pop("n_inner", None)
    ops = gen_batch_schedule(rng, cfg, T=rng.randint(2, 5))
    n, t = rng.choice([(127, "int8"), (255, "uint8")])
    ops.append({"op": "explain", "e": 0, "tag": 1998, "rs": rng.getrandbits(48)})     # the background is not empty
    for original in rng.sample([True, False], 2):
        ops.append({"op": "many_orig" if original else "many", "e": 0, "tags": [2000 + j for j in range(rng.randint(2, 3))],
                    "n_inner": n, "n_inner_type": t, "rs": rng.getrandbits(48)})
    strip_private(cfg)
    return {"property": prop, "kind": "explainer", "config": cfg, "ops": ops, "rs0": rng.getrandbits(48)}


def gen_batch_plan(rng, prop, big=False, huge=False, **kw):
    if huge:
        kw["arith"] = "float"
        big = True
    cfg = gen_batch_config(rng, **kw)
    if huge:
        cfg["huge"] = True
    if big:
        for e in cfg["explainers"]:
            e["n_inner"] = 1
    ops = gen_batch_schedule(rng, cfg, T=(rng.randint(3, 8) if big else None), big=big)
    if big:
        # explain_many over many rows as well
        for k, e in enumerate(cfg["explainers"]):
            if e["cls"] == "batch":
                n_rows = rng.randint(33, 90) if not huge else rng.randint(1025, 2600)
                ops.append({"op": "many_orig" if rng.random() < 0.5 else "many", "e": k,
                            "tags": [1000 + j for j in range(n_rows)], "rs": rng.getrandbits(48)})
    strip_private(cfg)
    return {"property": prop, "kind": "explainer", "config": cfg, "ops": ops, "rs0": rng.getrandbits(48)}

"""C19: TreeStorage reservoirs track current leaves; TreeImputer uses observed values.

World: a real TreeStorage (river's adaptive Hoeffding trees are real code, explicitly seeded), a real TreeImputer in
all four mode combinations around a recording stub model; the stream has scheduled concept drift that makes the trees
split, prune and swap subtrees; schedule: updates interleaved with impute calls (every subset shape) and with
explain_one of PFI/SAGE explainers that use the tree imputer."""
import copy
import hashlib

from . import seams, seeds
from .driver import Check
from .plan import wchoice
from .seeds import H

from ixai.storage import TreeStorage
from ixai.imputer import TreeImputer
from ixai.explainer import IncrementalPFI
from ixai.explainer.sage import IncrementalSage
from ixai.utils.wrappers.base import Wrapper

SEP = "|STOP|"


def leaf_ids(node, prefix=""):
    """All root-to-leaf path ids of a river tree, in the id format TreeStorage documents
    (node|split|branch|STOP| ... leaf|STOP|); written independently of the library's helper."""
    kids = getattr(node, "children", None)
    if kids is None:
        return [prefix + str(node) + SEP]
    out = []
    for b, child in enumerate(kids):
        out.extend(leaf_ids(child, prefix + "|".join((str(node), str(node.repr_split), str(b))) + SEP))
    return out


def route(node, x):
    """Path id of the leaf x is routed to (deterministic routing only: every split feature is present)."""
    path = ""
    while getattr(node, "children", None) is not None:
        b = node.branch_no(x)
        path += "|".join((str(node), str(node.repr_split), str(b))) + SEP
        node = node.children[b]
    return path + str(node) + SEP


def gen_plan(rng, prop):
    n_cat = wchoice(rng, [(0, 15), (1, 55), (2, 30)])
    n_num = wchoice(rng, [(1, 40), (2, 45), (3, 15)])
    if n_cat + n_num < 2:
        n_num = 2
    cfg = {"cat": ["c%d" % i for i in range(n_cat)], "num": ["n%d" % i for i in range(n_num)],
           "max_depth": rng.randint(1, 5), "grace_period": rng.choice([5, 10, 20, 50]),
           "leaf_reservoir_length": rng.randint(1, 6), "tree_seed": rng.randint(0, 2 ** 20),
           "use_storage": rng.random() < 0.6, "direct": rng.random() < 0.4, "seed": rng.getrandbits(32),
           "explainer": wchoice(rng, [(None, 50), ("pfi", 15), ("sage", 15), ("both", 20)])}
    T = wchoice(rng, [(rng.randint(30, 80), 25), (rng.randint(80, 200), 35), (rng.randint(200, 400), 30),
                      (rng.randint(400, 700), 10)])
    n_drift = wchoice(rng, [(0, 10), (1, 25), (2, 30), (3, 20), (4, 15)])
    cfg["drifts"] = sorted(rng.sample(range(10, max(11, T)), min(n_drift, max(0, T - 10))))
    names = cfg["cat"] + cfg["num"]
    ops = []
    t = 0
    warm = 8
    while len(ops) < T:
        r = rng.random()
        if t < warm or r < 0.8:
            t += 1
            ops.append({"op": "update", "t": t, "rs": rng.getrandbits(48)})
        elif r < 0.93:
            idx = list(range(len(names)))
            rng.shuffle(idx)
            shape = wchoice(rng, [("random", 60), ("empty", 10), ("full", 15), ("single", 15)])
            sub = [] if shape == "empty" else idx if shape == "full" else idx[:1] if shape == "single" else \
                idx[:rng.randint(1, len(names))]
            ops.append({"op": "impute", "subset": sub, "xt": 100000 + len(ops), "n": rng.randint(1, 4),
                        "stype": rng.choice(["list", "set", "tuple", "list", "set", "tuple", "gen"]), "rs": rng.getrandbits(48),
                        "same_object": rng.random() < 0.3})
        elif cfg["explainer"]:
            t += 1
            ops.append({"op": "explain", "t": t, "rs": rng.getrandbits(48)})
        else:
            t += 1
            ops.append({"op": "update", "t": t, "rs": rng.getrandbits(48)})
    return {"property": prop, "kind": "tree", "config": cfg, "ops": ops, "rs0": rng.getrandbits(48)}


def make_row(cfg, t):
    seed = cfg["seed"]
    regime = sum(1 for dft in cfg["drifts"] if t >= dft) if t < 100000 else (t % 3)
    x = {}
    cats = []
    for i, c in enumerate(cfg["cat"]):
        v = 1 + H(seed, "c", t, i) % 3
        x[c] = v
        cats.append(v)
    key = cats[0] if cats else 1 + H(seed, "k", t) % 3
    for i, nme in enumerate(cfg["num"]):
        u = (H(seed, "n", t, i) % 100003) / 100003.0
        if i == 0:
            shift = {0: 4.0, 1: -4.0, 2: 0.0, 3: 8.0}[regime % 4] if key == 1 else {0: 0.0, 1: 3.0, 2: -6.0, 3: 1.0}[regime % 4]
            x[nme] = round(u + shift, 6)
        else:
            x[nme] = round(u * (1 + i) + (regime % 2) * (2.0 if key == 2 else 0.0), 6)
    if len(cfg["cat"]) >= 2:      # second category depends on the first, flipping with the regime
        x[cfg["cat"][1]] = 1 + (cats[0] + regime + (H(seed, "f", t) % 5 == 0)) % 3
    return x


class _Model(Wrapper):
    def __init__(self, names):
        super().__init__(None, None)
        self.names = names
        self.log = []

    def __call__(self, x):
        if isinstance(x, dict):
            self.log.append(dict(x))
            return {"output": float(sum((j + 1) * float(x[n]) for j, n in enumerate(self.names)))}
        return [self(r) for r in x]


def snapshot_reservoirs(storage):
    return {f: {k: [dict(p) for p in r.get_data()[0]] for k, r in res.items()}
            for f, res in storage.data_reservoirs.items()}


def run_tree_plan(plan, c01=False):
    cfg = plan["config"]
    names = cfg["cat"] + cfg["num"]
    res = {"ok": True, "violation": None, "ops_run": 0, "aborted": None, "probes": {}, "faults_fired": {},
           "estimating_steps": 0}
    probes = res["probes"]
    h = hashlib.blake2b(digest_size=16)

    def probe(name, n=1):
        probes[name] = probes.get(name, 0) + n

    def viol(oracle, detail, i):
        res["ok"] = False
        res["violation"] = {"property": "C19", "oracle": oracle, "detail": detail, "op_index": i,
                            "cls": "use_storage=%s,direct=%s" % (cfg["use_storage"], cfg["direct"])}
        return res

    seams.reseed(plan.get("rs0", 1))
    storage = TreeStorage(cat_feature_names=list(cfg["cat"]), num_feature_names=list(cfg["num"]),
                          max_depth=cfg["max_depth"], leaf_reservoir_length=cfg["leaf_reservoir_length"],
                          grace_period=cfg["grace_period"], seed=cfg["tree_seed"])
    model = _Model(names)
    imputer = TreeImputer(model, storage, direct_predict_numeric=cfg["direct"], use_storage=cfg["use_storage"])
    explainer = None
    second = None
    sqloss = lambda y, p: (y - p["output"]) ** 2   # noqa: E731
    if cfg["explainer"]:
        cls = IncrementalPFI if cfg["explainer"] == "pfi" else IncrementalSage
        explainer = cls(model_function=model, loss_function=sqloss, feature_names=names,
                        storage=storage, imputer=imputer, smoothing_alpha=0.1, n_inner_samples=2)
        if cfg["explainer"] == "both":
            # the deployment of the repository's examples: SAGE and PFI share one storage and one imputer and see the
            # same observation object; only SAGE updates the storage
            second = IncrementalPFI(model_function=model, loss_function=sqloss, feature_names=names, storage=storage,
                                    imputer=imputer, smoothing_alpha=0.1, n_inner_samples=2)
    buffer_x = {}
    observed = []                    # every data point handed to the storage
    seen_values = {f: set() for f in names}
    updates = 0
    prev_leaves = {f: None for f in names}
    L = cfg["leaf_reservoir_length"]

    def after_update(x, i):
        nonlocal updates
        updates += 1
        observed.append(dict(x))
        for f in names:
            seen_values[f].add(x[f])
        if len(storage) != updates:
            return viol("length", "len(storage)=%d after %d updates" % (len(storage), updates), i)
        for f in names:
            tree, _ = storage(f)
            leaves = leaf_ids(tree._root)
            ls = set(leaves)
            if prev_leaves[f] is not None and ls != prev_leaves[f]:
                probe("leaf_set_changed")
                if len(ls) < len(prev_leaves[f]):
                    probe("tree_shrank")
            prev_leaves[f] = ls
            reservoirs = storage.data_reservoirs[f]
            stale = [k for k in reservoirs if k not in ls]
            if stale:
                return viol("stale-reservoir", "feature %r keeps a reservoir for %r which is not a leaf of the current "
                            "tree (leaves %r)" % (f, stale[0], leaves), i)
            for k, r in reservoirs.items():
                pts = r.get_data()[0]
                if len(pts) > L:
                    return viol("reservoir-oversized", "reservoir of leaf %r (feature %r) holds %d > %d points"
                                % (k, f, len(pts), L), i)
                if len(r.get_data()[1]) != 0 and len(r.get_data()[1]) != len(pts):
                    return viol("reservoir-targets", "reservoir targets misaligned", i)
                for p in pts:
                    if not any(p == o for o in observed):
                        return viol("reservoir-point-not-observed", "reservoir of leaf %r (feature %r) holds %r which was "
                                    "never observed (or is incomplete)" % (k, f, p), i)
            x_f = {kk: vv for kk, vv in x.items() if kk != f}
            lid = route(tree._root, x_f)
            if lid not in reservoirs:
                return viol("newest-not-stored", "no reservoir for the leaf %r the newest observation is routed to "
                            "(feature %r)" % (lid, f), i)
            if not any(p == x for p in reservoirs[lid].get_data()[0]):
                return viol("newest-not-stored", "newest observation %r is not in the reservoir of its leaf %r (feature %r): %r"
                            % (x, lid, f, reservoirs[lid].get_data()[0]), i)
            if len(reservoirs) > 1:
                probe("several_reservoirs")
        probe("update_checked")
        return None

    def check_impute_events(x_before, S, inputs, snap_before, i, n=None, preds=None):
        for inp in inputs:
            if set(inp.keys()) != set(x_before.keys()):
                return viol("input-keys", "model input keys %r, instance keys %r" % (list(inp), list(x_before)), i)
            for f in names:
                if f not in S:
                    if inp[f] != x_before[f]:
                        return viol("outside-subset-changed", "feature %r not requested (%r) but changed %r -> %r"
                                    % (f, S, x_before[f], inp[f]), i)
                    continue
                tree, ftype = storage(f)
                if cfg["use_storage"]:
                    lid = route(tree._root, x_before)
                    pts = snap_before[f].get(lid)
                    if pts is None:
                        probe("leaf_without_reservoir")
                        continue
                    if not any(inp[f] == p[f] for p in pts):
                        return viol("value-not-from-leaf-reservoir", "feature %r imputed with %r; the routed leaf's reservoir "
                                    "holds %r" % (f, inp[f], [p[f] for p in pts]), i)
                    probe("value_from_leaf_reservoir")
                elif ftype == "cat":
                    if inp[f] not in seen_values[f]:
                        return viol("category-never-observed", "categorical feature %r imputed with %r, observed classes %r"
                                    % (f, inp[f], sorted(seen_values[f])), i)
                    probe("category_observed")
        return None

    for i, op in enumerate(plan["ops"]):
        seams.reseed(op["rs"])
        del model.log[:]
        try:
            if op["op"] == "update":
                x = make_row(cfg, op["t"])
                storage.update(x)
                res["ops_run"] = i + 1
                v = after_update(x, i)
                if v:
                    return v
                res["estimating_steps"] += 1
            elif op["op"] == "explain":
                x = make_row(cfg, op["t"])
                y = float(H(cfg["seed"], "y", op["t"]) % 7)
                snap_before = snapshot_reservoirs(storage)
                x_before = dict(x)
                explainer.explain_one(x, y)
                res["ops_run"] = i + 1
                if x != x_before:
                    return viol("instance-modified", "%r -> %r" % (x_before, x), i)
                # the model inputs of the explanation were produced before the storage update of this call
                inputs = model.log[1:]
                if cfg["explainer"] == "pfi":
                    per = 2
                    for j, f in enumerate(names):
                        v = check_impute_events(x_before, [f], inputs[j * per:(j + 1) * per], snap_before, i)
                        if v:
                            return v
                probe("explain_checked")
                v = after_update(x, i)          # the first explainer has stored the observation by now
                if v:
                    return v
                if second is not None:
                    snap_mid = snapshot_reservoirs(storage)
                    del model.log[:]
                    second.explain_one(x, y, update_storage=False)     # the same observation object, after the update
                    if x != x_before:
                        return viol("instance-modified", "%r -> %r" % (x_before, x), i)
                    inputs2 = model.log[1:]
                    for j, f in enumerate(names):
                        v = check_impute_events(x_before, [f], inputs2[j * 2:(j + 1) * 2], snap_mid, i)
                        if v:
                            return v
                    if inputs2:
                        probe("second_explainer_checked")
                if c01 and cfg["explainer"] == "sage":
                    # C01 in a deployment with the tree storage / tree imputer (float arithmetic)
                    iv = explainer.importance_values
                    tot = sum(float(v_) for v_ in iv.values())
                    el = float(explainer.explained_loss)
                    scale = max(1.0, abs(float(explainer.marginal_loss)), abs(float(explainer.model_loss)),
                                sum(abs(float(v_)) for v_ in iv.values()))
                    if abs(tot - el) > 1e-9 * scale:
                        res["ok"] = False
                        res["violation"] = {"property": "C01", "oracle": "sum-vs-explained-loss", "op_index": i, "cls": "sage",
                                            "detail": "tree-imputer deployment: sum(importance)=%r explained_loss=%r" % (tot, el)}
                        return res
                    probe("identity_checked_tree_world")
            else:
                x = make_row(cfg, op["xt"])
                if op.get("same_object"):
                    # the caller reuses one buffer dict and refills it in place before every call
                    buffer_x.clear()
                    buffer_x.update(x)
                    x = buffer_x
                    probe("same_instance_object_reused")
                x_before = dict(x)
                S = [names[j] for j in op["subset"]]
                subset = list(S) if op["stype"] == "list" else set(S) if op["stype"] == "set" else tuple(S)
                subset_before = list(subset)
                if op["stype"] == "gen":         # "any iterable": walkable once
                    subset = (f_ for f_ in list(S))
                    probe("one_shot_iterable_subset")
                snap_before = snapshot_reservoirs(storage)
                len_before = len(storage)
                preds = imputer.impute(subset, x, op["n"])
                res["ops_run"] = i + 1
                res["estimating_steps"] += 1
                if not isinstance(preds, list) or len(preds) != op["n"]:
                    return viol("prediction-count", "impute returned %r predictions for n_samples=%d"
                                % (len(preds) if hasattr(preds, "__len__") else preds, op["n"]), i)
                if len(model.log) != op["n"]:
                    return viol("evaluation-count", "%d model evaluations for n_samples=%d" % (len(model.log), op["n"]), i)
                for j, inp in enumerate(model.log):
                    want = _Model(names)(inp)
                    if preds[j] != want:
                        return viol("prediction-not-model-output", "prediction %r, model output %r" % (preds[j], want), i)
                v = check_impute_events(x_before, S, list(model.log), snap_before, i)
                if v:
                    return v
                if x != x_before or list(x.keys()) != list(x_before.keys()):
                    return viol("instance-modified", "%r -> %r" % (x_before, x), i)
                if op["stype"] != "gen" and sorted(map(repr, subset)) != sorted(map(repr, subset_before)):
                    return viol("subset-modified", "%r -> %r" % (subset_before, list(subset)), i)
                if snapshot_reservoirs(storage) != snap_before or len(storage) != len_before:
                    return viol("storage-modified", "storage changed during impute", i)
                probe("impute_checked")
        except Exception as exc:  # noqa: BLE001
            res["aborted"] = "%s in %s: %s" % (type(exc).__name__, op["op"], str(exc)[:80])
            break
        h.update(repr((i, op["op"], [sorted(storage.data_reservoirs[f].keys()) for f in names], model.log)).encode())
    res["digest"] = h.hexdigest()
    return res


class C19Check(Check):
    prop = "C19"
    design_ref = "DESIGN.md section 4, C19"
    runs = {"quick": 1000, "thorough": 40000}
    rule = ("plans = (categorical/numerical feature mix, max_depth, grace period, reservoir length, tree seed, drift times, "
            "TreeImputer mode, update/impute/explain schedule); non-trivial = at least one update judged; distinct = digest "
            "of (leaf-id sets per feature after every operation, model inputs)")
    assumptions = ["river's adaptive Hoeffding trees are real code with explicit seeds and are trusted as installed",
                   "categorical features are numerically coded (as in the repository's own test); leaf ids are recomputed "
                   "by an independent walker in the documented id format"]

    def n_runs(self, tier):
        return self.runs[tier]

    def gen(self, seed, tier, run_index):
        return gen_plan(seeds.run_rng(seed, self.prop, tier, run_index), self.prop)

    def run(self, plan):
        return run_tree_plan(plan)

    def reductions(self, plan):
        out = []
        cfg = plan["config"]
        if cfg.get("explainer") and not any(op["op"] == "explain" for op in plan["ops"]):
            p = copy.deepcopy(plan)
            p["config"]["explainer"] = None
            out.append(p)
        return out


CHECKS = [C19Check]

"""Exact: a Fraction that absorbs Python/NumPy floats exactly instead of degrading to float.

Every binary float is a dyadic rational, so `Exact(0.1)` is the exact value of the double 0.1 and
arithmetic between Exact and float/np.floating/int stays exact.  `__array_ufunc__ = None` makes NumPy
scalars defer to the reflected operators of this class.
"""
from fractions import Fraction
import numbers
import math

import numpy as np


def _to_fraction(v):
    if isinstance(v, Fraction):
        return v
    if isinstance(v, (bool, np.bool_)):
        return Fraction(int(v))
    if isinstance(v, (int, np.integer)):
        return Fraction(int(v))
    if isinstance(v, (float, np.floating)):
        return Fraction(float(v))
    return None


class Exact(Fraction):
    __slots__ = ()
    __array_ufunc__ = None

    def __new__(cls, numerator=0, denominator=None):
        if denominator is None:
            f = _to_fraction(numerator)
            if f is None:
                f = Fraction(numerator)
        else:
            f = Fraction(numerator, denominator)
        self = super().__new__(cls, f.numerator, f.denominator)
        return self

    @classmethod
    def _wrap(cls, f):
        if f is NotImplemented:
            return f
        if isinstance(f, Fraction):
            return cls(f.numerator, f.denominator)
        return f

    def _bin(self, other, op):
        o = _to_fraction(other)
        if o is None:
            return NotImplemented
        return self._wrap(op(Fraction(self.numerator, self.denominator), o))

    def _rbin(self, other, op):
        o = _to_fraction(other)
        if o is None:
            return NotImplemented
        return self._wrap(op(o, Fraction(self.numerator, self.denominator)))

    def __add__(self, o): return self._bin(o, Fraction.__add__)
    def __radd__(self, o): return self._rbin(o, Fraction.__add__)
    def __sub__(self, o): return self._bin(o, Fraction.__sub__)
    def __rsub__(self, o): return self._rbin(o, Fraction.__sub__)
    def __mul__(self, o): return self._bin(o, Fraction.__mul__)
    def __rmul__(self, o): return self._rbin(o, Fraction.__mul__)
    def __truediv__(self, o): return self._bin(o, Fraction.__truediv__)
    def __rtruediv__(self, o): return self._rbin(o, Fraction.__truediv__)

    def __pow__(self, o):
        if isinstance(o, (int, np.integer)) and not isinstance(o, bool):
            return self._wrap(Fraction.__pow__(Fraction(self.numerator, self.denominator), int(o)))
        f = _to_fraction(o)
        if f is not None and f.denominator == 1:
            return self._wrap(Fraction.__pow__(Fraction(self.numerator, self.denominator), f.numerator))
        return float(self) ** float(o)

    def __neg__(self): return Exact(-self.numerator, self.denominator)
    def __pos__(self): return self
    def __abs__(self): return Exact(abs(self.numerator), self.denominator)

    def _cmp_other(self, o):
        return _to_fraction(o)

    def __eq__(self, o):
        f = _to_fraction(o)
        if f is None:
            return NotImplemented
        return self.numerator == f.numerator and self.denominator == f.denominator

    def __hash__(self):
        return Fraction.__hash__(self)

    def __lt__(self, o):
        f = _to_fraction(o)
        return NotImplemented if f is None else Fraction.__lt__(self, f)

    def __le__(self, o):
        f = _to_fraction(o)
        return NotImplemented if f is None else Fraction.__le__(self, f)

    def __gt__(self, o):
        f = _to_fraction(o)
        return NotImplemented if f is None else Fraction.__gt__(self, f)

    def __ge__(self, o):
        f = _to_fraction(o)
        return NotImplemented if f is None else Fraction.__ge__(self, f)

    def __repr__(self):
        n, d = self.numerator, self.denominator
        if n.bit_length() > 200 or d.bit_length() > 200:   # linear-time rendering for huge rationals
            return "E(%s0x%x/0x%x)" % ("-" if n < 0 else "", abs(n), d)
        if d == 1:
            return "E(%d)" % n
        return "E(%d/%d)" % (n, d)

    __str__ = __repr__

    def __reduce__(self):
        return (Exact, (self.numerator, self.denominator))

    def __copy__(self):
        return self

    def __deepcopy__(self, memo):
        return self


def is_exact(v):
    return isinstance(v, Exact)


def to_json(v):
    """JSON-able rendering of a number (Exact -> "n/d")."""
    if isinstance(v, Exact):
        return repr(v)
    if isinstance(v, (np.floating,)):
        return float(v)
    if isinstance(v, (np.integer,)):
        return int(v)
    return v

"""Statistical law checks in stream RNG mode (the real generators composed with the library's use of them are the
system under test): C08 (uniform reservoir), C09 (geometric reservoir), C04 (feature orders / background rows)."""
import copy
import hashlib
import itertools
import math
from collections import Counter

from . import seams, seeds
from .driver import Check
from .stats import Family, FAMILY_ALPHA

from ixai.storage import UniformReservoirStorage, GeometricReservoirStorage

MAX_HYP_PER_RUN = 1200


class StatCheck(Check):
    """One run = one cell with R i.i.d. trials under one seeded stream; every hypothesis of the run is an exact
    binomial test at level FAMILY_ALPHA / (runs * MAX_HYP_PER_RUN); a rejection must be confirmed on an independent
    batch three times as large before it is reported."""
    oracle_name = "law"

    def cells(self, tier):
        raise NotImplementedError

    def R(self, tier, cell):
        raise NotImplementedError

    def n_runs(self, tier):
        return len(self.cells(tier))

    def alpha(self, tier):
        return FAMILY_ALPHA / (self.n_runs(tier) * MAX_HYP_PER_RUN)

    def gen(self, seed, tier, run_index):
        cell = self.cells(tier)[run_index]
        return {"property": self.prop, "kind": "stat", "cell": cell, "R": self.R(tier, cell),
                "rs": seeds.derive(seed, self.prop, tier, run_index, "stream") & 0xFFFFFFFFFFFF,
                "alpha": self.alpha(tier)}

    def sample(self, cell, R, rs):
        """-> (Family, deterministic_violation or None, extra dict)"""
        raise NotImplementedError

    def run(self, plan):
        cell, R, alpha = plan["cell"], plan["R"], plan["alpha"]
        fam, det, extra = self.sample(cell, R, plan["rs"])
        res = {"ok": True, "violation": None, "ops_run": extra.get("draw_ops", R), "aborted": None,
               "probes": dict(extra.get("probes", {})), "faults_fired": {}, "estimating_steps": R,
               "extra": {"hypotheses": len(fam), "trials": R}}
        h = hashlib.blake2b(digest_size=16)
        h.update(repr((cell, R, plan["rs"], fam.k, fam.n)).encode())
        res["digest"] = h.hexdigest()
        if len(fam) > MAX_HYP_PER_RUN:
            raise RuntimeError("family of %d hypotheses exceeds the Bonferroni budget" % len(fam))
        if det:
            res["ok"] = False
            res["violation"] = {"property": self.prop, "oracle": det[0], "detail": det[1], "cell": cell, "cls": det[0]}
            return res
        rej, pmin = fam.evaluate(alpha)
        res["extra"]["min_p"] = pmin
        if rej:
            # confirmation on an independent, larger batch
            rs2 = seeds.derive(plan["rs"], "confirm") & 0xFFFFFFFFFFFF
            fam2, det2, _ = self.sample(cell, 3 * R, rs2)
            rej2, _ = fam2.evaluate(alpha)
            labels2 = {r[0] for r in rej2}
            confirmed = [r for r in rej if r[0] in labels2]
            res["probes"]["rejections_first_batch"] = len(rej)
            if confirmed or det2:
                lab, k, n, p0, pv = min(confirmed, key=lambda r: r[4]) if confirmed else rej[0]
                k2 = [r for r in rej2 if r[0] == lab]
                res["ok"] = False
                res["violation"] = {
                    "property": self.prop, "oracle": self.oracle_name,
                    "detail": "%s: observed %d/%d = %.4f, law says %.4f (exact binomial p=%.3g < alpha=%.3g); confirmed on an "
                              "independent batch: %s; %d hypotheses rejected in this cell"
                              % (lab, k, n, k / n, p0, pv, alpha,
                                 ("%d/%d = %.4f" % (k2[0][1], k2[0][2], k2[0][1] / k2[0][2])) if k2 else "deterministic",
                                 len(confirmed)),
                    "cell": cell, "cls": lab.split(":")[0], "hypothesis": lab}
            else:
                res["probes"]["rejections_not_confirmed"] = len(rej)
        return res

    def signature(self, violation):
        return (violation.get("oracle"), violation.get("cls"))

    def sample_of(self, plan, res):
        return {"cell": plan["cell"], "R": plan["R"], "rs": plan["rs"], "alpha": plan["alpha"],
                "hypotheses": res.get("extra", {}).get("hypotheses"), "min_p": res.get("extra", {}).get("min_p")}

    def nontrivial(self, res):
        return True

    def extra_evidence(self, merged):
        recs = merged["records"]
        trials = sum((r.get("extra") or {}).get("trials", 0) for r in recs)
        hyp = sum((r.get("extra") or {}).get("hypotheses", 0) for r in recs)
        pmins = [(r.get("extra") or {}).get("min_p", 1.0) for r in recs if (r.get("extra") or {}).get("min_p") is not None]
        return {"statistical": {"cells": len(recs), "trials": trials, "hypotheses_tested": hyp,
                                "smallest_p_value": min(pmins) if pmins else None,
                                "family_alpha": FAMILY_ALPHA,
                                "test": "exact two-sided binomial per hypothesis, Bonferroni over all hypotheses of the check, "
                                        "confirmation on an independent batch of 3x the size"},
                "rng_mode": "stream (seeded once per cell; real CPython/NumPy generators untouched)"}


# ----------------------------------------------------------------------------------------------
# C08
# ----------------------------------------------------------------------------------------------

class C08Check(StatCheck):
    prop = "C08"
    design_ref = "DESIGN.md section 4, C08"
    oracle_name = "uniform-subset-law"
    rule = ("cells (k, N): R independent reservoirs of size k fed N uniquely tagged arrivals; content snapshotted at every "
            "n in k+1..N; hypotheses: retention of arrival t at time n vs k/n, and (when C(n,k) <= 84) every k-subset vs "
            "1/C(n,k). distinct = distinct count tables")
    assumptions = ["the check decides the law of what the storage holds; it does not re-validate CPython's generator",
                   "power: quick detects a relative retention bias of roughly 6% in a 1/3 cell, thorough roughly 1%"]

    def cells(self, tier):
        out = []
        for k in (1, 2, 3, 5):
            for N in ([k + 2, k + 5, k + 12] if tier == "quick" else [k + 1, k + 2, k + 3, k + 5, k + 8, k + 12]):
                out.append({"k": k, "N": N})
        out.append({"k": 1, "N": 30})
        out.append({"k": 3, "N": 30})
        out.append({"k": 2, "N": 100, "sparse": True})
        if tier == "thorough":
            out.append({"k": 5, "N": 100, "sparse": True})
            out.append({"k": 10, "N": 60, "sparse": True})
            out = out * 3        # three independent seed batches per cell
        return out

    def R(self, tier, cell):
        base = 40000 if tier == "quick" else 1000000
        if cell["N"] >= 30:
            base //= 4
        return base

    def sample(self, cell, R, rs):
        k, N = cell["k"], cell["N"]
        seams.reseed(rs)
        if cell.get("sparse"):
            ns = sorted({k + 1, k + 2, k + 5, N // 2, N})
        else:
            ns = list(range(k + 1, N + 1))
        nset = set(ns)
        ret = {n: [0] * (n + 1) for n in ns}
        subs = {n: Counter() for n in ns if math.comb(n, k) <= 84}
        det = None
        for _ in range(R):
            s = UniformReservoirStorage(size=k, store_targets=False)
            for n in range(1, N + 1):
                s.update({"t": n})
                if n in nset:
                    tags = [r["t"] for r in s.get_data()[0]]
                    if len(tags) != k or len(set(tags)) != k:
                        det = ("reservoir-shape", "content %r after %d updates (k=%d)" % (tags, n, k))
                        break
                    row = ret[n]
                    for t in tags:
                        row[t] += 1
                    if n in subs:
                        subs[n][frozenset(tags)] += 1
            if det:
                break
        fam = Family()
        for n in ns:
            for t in range(1, n + 1):
                fam.add("retention:k=%d:n=%d:t=%d" % (k, n, t), ret[n][t], R, k / n)
            if n in subs and k > 1:
                c = math.comb(n, k)
                for sub in itertools.combinations(range(1, n + 1), k):
                    fam.add("subset:k=%d:n=%d:%s" % (k, n, ",".join(map(str, sub))), subs[n][frozenset(sub)], R, 1.0 / c)
        return fam, det, {"draw_ops": R * N, "probes": {"reservoirs": R}}

    def reductions(self, plan):
        out = []
        c = plan["cell"]
        for N in sorted({c["k"] + 1, c["k"] + 2, c["k"] + 3, c["N"] // 2}):
            if c["k"] < N < c["N"]:
                p = copy.deepcopy(plan)
                p["cell"]["N"] = N
                p["cell"].pop("sparse", None)
                out.append(p)
        if c["k"] > 1:
            p = copy.deepcopy(plan)
            p["cell"]["k"] = c["k"] - 1
            out.append(p)
        return out


# ----------------------------------------------------------------------------------------------
# C09
# ----------------------------------------------------------------------------------------------

class C09Check(StatCheck):
    prop = "C09"
    design_ref = "DESIGN.md section 4, C09"
    oracle_name = "geometric-inclusion-law"
    rule = ("cells (k, p, N): R independent reservoirs; hypotheses: retention of arrival t after n updates vs "
            "p(1-p/k)^(n-t) (t>k) / (1-p/k)^(n-k) (t<=k) at every n, acceptance frequency vs p, replaced slot vs 1/k; "
            "p=1 newest always present and p=0 content frozen are deterministic claims")
    assumptions = ["p = 0: an acceptance has probability 2^-53 per update (random.random() == 0.0) and is not flagged unless "
                   "it happens at least twice in a cell"]

    def cells(self, tier):
        out = []
        for k in (1, 2, 3, 5):
            for p in (None, [3, 10], [1, 1], [0, 1]):
                Ns = [k + 3, k + 10] if tier == "quick" else [k + 1, k + 3, k + 10, k + 40]
                for N in Ns:
                    out.append({"k": k, "p": p, "N": N})
        if tier == "thorough":
            out.append({"k": 10, "p": None, "N": 50})
            out.append({"k": 10, "p": [1, 1], "N": 30})
            out = out * 2
        return out

    def R(self, tier, cell):
        base = 30000 if tier == "quick" else 600000
        if cell["N"] > 20:
            base //= 3
        return base

    def sample(self, cell, R, rs):
        k, N = cell["k"], cell["N"]
        p = cell["p"]
        pv = (1.0 / k) if p is None else p[0] / p[1]
        seams.reseed(rs)
        ret = {n: [0] * (n + 1) for n in range(k + 1, N + 1)}
        accepts = 0
        trials = 0
        slots = [0] * k
        frozen_changes = 0
        det = None
        for _ in range(R):
            if p is None:
                s = GeometricReservoirStorage(size=k, store_targets=False)
            else:
                s = GeometricReservoirStorage(size=k, store_targets=False, constant_probability=pv)
            prev = None
            for n in range(1, N + 1):
                s.update({"t": n})
                tags = [r["t"] for r in s.get_data()[0]]
                if n <= k:
                    prev = tags
                    continue
                if len(tags) != k or len(set(tags)) != k:
                    det = ("reservoir-shape", "content %r after %d updates (k=%d)" % (tags, n, k))
                    break
                row = ret[n]
                for t in tags:
                    row[t] += 1
                trials += 1
                if n in tags:
                    accepts += 1
                    slots[tags.index(n)] += 1
                elif pv >= 1.0:
                    det = ("newest-not-stored", "p=1 but arrival %d is not in the reservoir %r" % (n, tags))
                    break
                if pv <= 0.0 and tags != prev:
                    frozen_changes += 1
                prev = tags
            if det:
                break
        if pv <= 0.0 and frozen_changes >= 2:
            det = ("frozen-reservoir-changed", "p=0 but the content changed %d times after the fill" % frozen_changes)
        fam = Family()
        q = 1.0 - pv / k
        for n in range(k + 1, N + 1):
            for t in range(1, n + 1):
                law = q ** (n - k) if t <= k else pv * q ** (n - t)
                fam.add("retention:k=%d:p=%s:n=%d:t=%d" % (k, p, n, t), ret[n][t], R, law)
        fam.add("acceptance:k=%d:p=%s" % (k, p), accepts, trials, pv)
        if k > 1 and accepts > 0:
            for j in range(k):
                fam.add("slot:k=%d:p=%s:slot=%d" % (k, p, j), slots[j], accepts, 1.0 / k)
        return fam, det, {"draw_ops": R * N, "probes": {"reservoirs": R, "accepts": accepts}}

    def reductions(self, plan):
        out = []
        c = plan["cell"]
        for N in sorted({c["k"] + 1, c["k"] + 2, c["N"] // 2}):
            if c["k"] < N < c["N"]:
                p = copy.deepcopy(plan)
                p["cell"]["N"] = N
                out.append(p)
        return out


CHECKS = [C08Check, C09Check]

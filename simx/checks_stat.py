"""Statistical law checks in stream RNG mode (the real generators composed with the library's use of them are the
system under test): C08 (uniform reservoir), C09 (geometric reservoir), C04 (feature orders / background rows)."""
import copy
import hashlib
import itertools
import math
from collections import Counter

from . import seams, seeds
from .driver import Check
from .stats import Family, FAMILY_ALPHA

from ixai.storage import UniformReservoirStorage, GeometricReservoirStorage

MAX_HYP_PER_RUN = 1200


class StatCheck(Check):
    """One run = one cell with R i.i.d. trials under one seeded stream; every hypothesis of the run is an exact
    binomial test at level FAMILY_ALPHA / (runs * MAX_HYP_PER_RUN); a rejection must be confirmed on an independent
    batch three times as large before it is reported."""
    oracle_name = "law"

    def cells(self, tier):
        raise NotImplementedError

    def R(self, tier, cell):
        raise NotImplementedError

    def n_runs(self, tier):
        return len(self.cells(tier))

    def alpha(self, tier):
        return FAMILY_ALPHA / (self.n_runs(tier) * MAX_HYP_PER_RUN)

    def gen(self, seed, tier, run_index):
        cell = self.cells(tier)[run_index]
        return {"property": self.prop, "kind": "stat", "cell": cell, "R": self.R(tier, cell),
                "rs": seeds.derive(seed, self.prop, tier, run_index, "stream") & 0xFFFFFFFFFFFF,
                "alpha": self.alpha(tier)}

    def sample(self, cell, R, rs):
        """-> (Family, deterministic_violation or None, extra dict)"""
        raise NotImplementedError

    def run(self, plan):
        cell, R, alpha = plan["cell"], plan["R"], plan["alpha"]
        fam, det, extra = self.sample(cell, R, plan["rs"])
        res = {"ok": True, "violation": None, "ops_run": extra.get("draw_ops", R), "aborted": None,
               "probes": dict(extra.get("probes", {})), "faults_fired": {}, "estimating_steps": R,
               "extra": {"hypotheses": len(fam), "trials": R}}
        h = hashlib.blake2b(digest_size=16)
        h.update(repr((cell, R, plan["rs"], fam.k, fam.n)).encode())
        res["digest"] = h.hexdigest()
        if len(fam) > MAX_HYP_PER_RUN:
            raise RuntimeError("family of %d hypotheses exceeds the Bonferroni budget" % len(fam))
        if det:
            res["ok"] = False
            res["violation"] = {"property": self.prop, "oracle": det[0], "detail": det[1], "cell": cell, "cls": det[0]}
            return res
        rej, pmin = fam.evaluate(alpha)
        res["extra"]["min_p"] = pmin
        if rej:
            # confirmation on an independent, larger batch
            rs2 = seeds.derive(plan["rs"], "confirm") & 0xFFFFFFFFFFFF
            fam2, det2, _ = self.sample(cell, 3 * R, rs2)
            rej2, _ = fam2.evaluate(alpha)
            labels2 = {r[0] for r in rej2}
            confirmed = [r for r in rej if r[0] in labels2]
            res["probes"]["rejections_first_batch"] = len(rej)
            if confirmed or det2:
                lab, k, n, p0, pv = min(confirmed, key=lambda r: r[4]) if confirmed else rej[0]
                k2 = [r for r in rej2 if r[0] == lab]
                res["ok"] = False
                res["violation"] = {
                    "property": self.prop, "oracle": self.oracle_name,
                    "detail": "%s: observed %d/%d = %.4f, law says %.4f (exact binomial p=%.3g < alpha=%.3g); confirmed on an "
                              "independent batch: %s; %d hypotheses rejected in this cell"
                              % (lab, k, n, k / n, p0, pv, alpha,
                                 ("%d/%d = %.4f" % (k2[0][1], k2[0][2], k2[0][1] / k2[0][2])) if k2 else "deterministic",
                                 len(confirmed)),
                    "cell": cell, "cls": lab.split(":")[0], "hypothesis": lab}
            else:
                res["probes"]["rejections_not_confirmed"] = len(rej)
        return res

    def signature(self, violation):
        return (violation.get("oracle"), violation.get("cls"))

    def sample_of(self, plan, res):
        return {"cell": plan["cell"], "R": plan["R"], "rs": plan["rs"], "alpha": plan["alpha"],
                "hypotheses": res.get("extra", {}).get("hypotheses"), "min_p": res.get("extra", {}).get("min_p")}

    def nontrivial(self, res):
        return True

    def extra_evidence(self, merged):
        recs = merged["extras"]
        trials = sum(r.get("trials", 0) for r in recs)
        hyp = sum(r.get("hypotheses", 0) for r in recs)
        pmins = [r.get("min_p", 1.0) for r in recs if r.get("min_p") is not None]
        return {"statistical": {"cells": len(recs), "trials": trials, "hypotheses_tested": hyp,
                                "smallest_p_value": min(pmins) if pmins else None,
                                "family_alpha": FAMILY_ALPHA,
                                "test": "exact two-sided binomial per hypothesis, Bonferroni over all hypotheses of the check, "
                                        "confirmation on an independent batch of 3x the size"},
                "rng_mode": "stream (seeded once per cell; real CPython/NumPy generators untouched)"}


# ----------------------------------------------------------------------------------------------
# C08
# ----------------------------------------------------------------------------------------------

class C08Check(StatCheck):
    prop = "C08"
    design_ref = "DESIGN.md section 4, C08"
    oracle_name = "uniform-subset-law"
    rule = ("cells (k, N): R independent reservoirs of size k fed N uniquely tagged arrivals; content snapshotted at every "
            "n in k+1..N; hypotheses: retention of arrival t at time n vs k/n, and (when C(n,k) <= 84) every k-subset vs "
            "1/C(n,k). distinct = distinct count tables")
    assumptions = ["the check decides the law of what the storage holds; it does not re-validate CPython's generator",
                   "power: quick detects a relative retention bias of roughly 6% in a 1/3 cell, thorough roughly 1%"]

    def cells(self, tier):
        out = []
        for k in (1, 2, 3, 5):
            for N in ([k + 2, k + 5, k + 12] if tier == "quick" else [k + 1, k + 2, k + 3, k + 5, k + 8, k + 12]):
                out.append({"k": k, "N": N})
        out.append({"k": 1, "N": 30})
        out.append({"k": 3, "N": 30})
        out.append({"k": 2, "N": 100, "sparse": True})
        out.append({"k": 20, "N": 60, "sparse": True})      # larger reservoirs: a bias confined to big k
        out.append({"k": 50, "N": 150, "sparse": True})
        # the size handed over as a narrow NumPy integer (k >= 1 "of any integer type")
        out.append({"k": 100, "N": 400, "sparse": True, "ktype": "uint8"})
        out.append({"k": 100, "N": 400, "sparse": True, "ktype": "int8"})
        out.append({"k": 300, "N": 40000, "long": True, "ktype": "int16"})
        # very long streams (n/k >> 10^4): only the final content, binned by arrival time
        out.append({"k": 1, "N": 40000, "long": True})
        out.append({"k": 2, "N": 60000, "long": True})
        if tier == "thorough":
            out.append({"k": 5, "N": 100, "sparse": True})
            out.append({"k": 10, "N": 60, "sparse": True})
            out.append({"k": 100, "N": 300, "sparse": True})
            out = out * 3        # three independent seed batches per cell
            out += [{"k": 1, "N": 200000, "long": True}] * 6 + [{"k": 3, "N": 300000, "long": True}] * 4
        return out

    def R(self, tier, cell):
        base = 40000 if tier == "quick" else 1000000
        if cell["N"] >= 30:
            base //= 4
        if cell["N"] >= 150:
            base //= 2
        if cell.get("long"):
            return max(200, (12000000 if tier == "quick" else 120000000) // cell["N"])
        if cell.get("ktype"):
            base = min(base, 4000 if tier == "quick" else 40000)
        return base

    def sample_long(self, cell, R, rs):
        """Very long streams: only the final content is inspected, binned into five equal ranges of arrival times."""
        k, N = cell["k"], cell["N"]
        size = getattr(np, cell["ktype"])(k) if cell.get("ktype") else k
        seams.reseed(rs)
        bins = [0] * 5
        det = None
        for _ in range(R):
            s = UniformReservoirStorage(size=size, store_targets=False)
            upd = s.update
            for n in range(1, N + 1):
                upd({"t": n})
            tags = [r["t"] for r in s.get_data()[0]]
            if len(tags) != k or len(set(tags)) != k:
                det = ("reservoir-shape", "content of %d items after %d updates (k=%d)" % (len(tags), N, k))
                break
            for t in tags:
                bins[min(4, (t - 1) * 5 // N)] += 1
        fam = Family()
        sizes = [0] * 5
        for b in range(5):
            # arrivals t with (t-1)*5//N == b  (exact count, also when N is not a multiple of 5)
            lo = -(-b * N // 5)
            hi = -(-(b + 1) * N // 5) if b < 4 else N
            sizes[b] = hi - lo
        for b in range(5):
            fam.add("longstream:k=%d:n=%d:arrivals-in-fifth-%d" % (k, N, b + 1), bins[b], R * k, sizes[b] / N)
        return fam, det, {"draw_ops": R * N, "probes": {"reservoirs": R, "long_stream_cells": 1}}

    def sample(self, cell, R, rs):
        if cell.get("long"):
            return self.sample_long(cell, R, rs)
        k, N = cell["k"], cell["N"]
        seams.reseed(rs)
        if cell.get("sparse"):
            ns = sorted({k + 1, k + 2, k + 5, N // 2, N})
        else:
            ns = list(range(k + 1, N + 1))
        nset = set(ns)
        ret = {n: [0] * (n + 1) for n in ns}
        subs = {n: Counter() for n in ns if math.comb(n, k) <= 84}
        det = None
        size = getattr(np, cell["ktype"])(k) if cell.get("ktype") else k
        for _ in range(R):
            s = UniformReservoirStorage(size=size, store_targets=False)
            for n in range(1, N + 1):
                s.update({"t": n})
                if n in nset:
                    tags = [r["t"] for r in s.get_data()[0]]
                    if len(tags) != k or len(set(tags)) != k:
                        det = ("reservoir-shape", "content %r after %d updates (k=%d)" % (tags, n, k))
                        break
                    row = ret[n]
                    for t in tags:
                        row[t] += 1
                    if n in subs:
                        subs[n][frozenset(tags)] += 1
            if det:
                break
        fam = Family()
        for n in ns:
            for t in range(1, n + 1):
                fam.add("retention:k=%d:n=%d:t=%d" % (k, n, t), ret[n][t], R, k / n)
            if n in subs and k > 1:
                c = math.comb(n, k)
                for sub in itertools.combinations(range(1, n + 1), k):
                    fam.add("subset:k=%d:n=%d:%s" % (k, n, ",".join(map(str, sub))), subs[n][frozenset(sub)], R, 1.0 / c)
        return fam, det, {"draw_ops": R * N, "probes": {"reservoirs": R}}

    def reductions(self, plan):
        out = []
        c = plan["cell"]
        if c.get("long"):
            if c["N"] // 2 >= 2000:
                p = copy.deepcopy(plan)
                p["cell"]["N"] = c["N"] // 2
                out.append(p)
            return out
        for N in sorted({c["k"] + 1, c["k"] + 2, c["k"] + 3, c["N"] // 2}):
            if c["k"] < N < c["N"]:
                p = copy.deepcopy(plan)
                p["cell"]["N"] = N
                p["cell"].pop("sparse", None)
                out.append(p)
        if c["k"] > 1:
            p = copy.deepcopy(plan)
            p["cell"]["k"] = c["k"] - 1
            out.append(p)
        return out


# ----------------------------------------------------------------------------------------------
# C09
# ----------------------------------------------------------------------------------------------

class C09Check(StatCheck):
    prop = "C09"
    design_ref = "DESIGN.md section 4, C09"
    oracle_name = "geometric-inclusion-law"
    rule = ("cells (k, p, N): R independent reservoirs; hypotheses: retention of arrival t after n updates vs "
            "p(1-p/k)^(n-t) (t>k) / (1-p/k)^(n-k) (t<=k) at every n, acceptance frequency vs p, replaced slot vs 1/k; "
            "p=1 newest always present and p=0 content frozen are deterministic claims")
    assumptions = ["p = 0 is judged strictly: random.random() draws from [0, 1), and a draw of exactly 0.0 (scripted through the "
                   "RNG seam, since it has probability 2^-53) must not be accepted either"]

    def cells(self, tier):
        out = []
        for k in (1, 2, 3, 5):
            for p in (None, [3, 10], [1, 1], [0, 1]):
                Ns = [k + 3, k + 10] if tier == "quick" else [k + 1, k + 3, k + 10, k + 40]
                for N in Ns:
                    out.append({"k": k, "p": p, "N": N})
        out.append({"k": 10, "p": None, "N": 30})
        out.append({"k": 20, "p": [3, 10], "N": 40})
        # "every p in [0,1]": the probability handed over as a narrow NumPy float
        out.append({"k": 2, "p": [1, 1], "N": 12, "ptype": "float16"})
        out.append({"k": 1, "p": [1, 1], "N": 8, "ptype": "float32"})
        out.append({"k": 2, "p": [3, 10], "N": 12, "ptype": "float32"})
        out.append({"k": 2, "p": [0, 1], "N": 8, "ptype": "float32"})
        if tier == "thorough":
            out.append({"k": 10, "p": None, "N": 50, "sparse": True})
            out.append({"k": 10, "p": [1, 1], "N": 30})
            out.append({"k": 100, "p": None, "N": 140, "sparse": True})
            out = out * 2
        return out

    def R(self, tier, cell):
        base = 30000 if tier == "quick" else 600000
        if cell["N"] > 20:
            base //= 3
        return base

    def sample(self, cell, R, rs):
        k, N = cell["k"], cell["N"]
        p = cell["p"]
        pv = (1.0 / k) if p is None else p[0] / p[1]
        p_arg = pv
        if cell.get("ptype"):
            p_arg = getattr(np, cell["ptype"])(pv)
            pv = float(p_arg)
        seams.reseed(rs)
        ret = {n: [0] * (n + 1) for n in range(k + 1, N + 1)}
        accepts = 0
        trials = 0
        slots = [0] * k
        frozen_changes = 0
        det = None
        for _ in range(R):
            if p is None:
                s = GeometricReservoirStorage(size=k, store_targets=False)
            else:
                s = GeometricReservoirStorage(size=k, store_targets=False, constant_probability=p_arg)
            prev = None
            for n in range(1, N + 1):
                s.update({"t": n})
                tags = [r["t"] for r in s.get_data()[0]]
                if n <= k:
                    prev = tags
                    continue
                if len(tags) != k or len(set(tags)) != k:
                    det = ("reservoir-shape", "content %r after %d updates (k=%d)" % (tags, n, k))
                    break
                row = ret[n]
                for t in tags:
                    row[t] += 1
                trials += 1
                if n in tags:
                    accepts += 1
                    slots[tags.index(n)] += 1
                elif pv >= 1.0:
                    det = ("newest-not-stored", "p=1 but arrival %d is not in the reservoir %r" % (n, tags))
                    break
                if pv <= 0.0 and tags != prev:
                    frozen_changes += 1
                prev = tags
            if det:
                break
        if pv <= 0.0 and frozen_changes >= 1:
            det = ("frozen-reservoir-changed", "p=0 but the content changed %d times after the fill" % frozen_changes)
        zero_draws = 0
        if pv <= 0.0 and det is None:
            # scripted: the generator returns exactly 0.0 (legal for random.random(), probability 2^-53 per draw)
            tape = seams.TAPE
            tape.install()
            try:
                s = GeometricReservoirStorage(size=k, store_targets=False, constant_probability=p_arg)
                for n in range(1, k + 1):
                    tape.begin_op(None, None)
                    s.update({"t": n})
                before = [r["t"] for r in s.get_data()[0]]
                for n in range(k + 1, k + 4):
                    tape.begin_op({"u": ["zero"]}, None)
                    s.update({"t": n})
                    zero_draws += 1
                    tags = [r["t"] for r in s.get_data()[0]]
                    if tags != before:
                        det = ("frozen-reservoir-changed", "p=0 but arrival %d entered the reservoir when the generator "
                               "returned 0.0 (content %r -> %r)" % (n, before, tags))
                        break
            finally:
                tape.begin_op(None, None)
                tape.counts = {}
                tape.remove()
        top_draws = 0
        if pv >= 1.0 and det is None:
            # scripted: the generator returns the largest double below 1 - at p = 1 it is still "a new observation"
            tape = seams.TAPE
            tape.install()
            try:
                s = GeometricReservoirStorage(size=k, store_targets=False, constant_probability=p_arg)
                for n in range(1, k + 4):
                    tape.begin_op({"u": ["hi"]} if n > k else None, None)
                    s.update({"t": n})
                    if n > k:
                        top_draws += 1
                        tags = [r["t"] for r in s.get_data()[0]]
                        if n not in tags:
                            det = ("newest-not-stored", "p=1 (given as %s) but arrival %d is not in the reservoir %r when the "
                                   "generator returns 1-2^-53" % (type(p_arg).__name__, n, tags))
                            break
            finally:
                tape.begin_op(None, None)
                tape.counts = {}
                tape.remove()
        fam = Family()
        q = 1.0 - pv / k
        ns_test = range(k + 1, N + 1)
        if cell.get("sparse"):
            ns_test = sorted({k + 1, k + 2, k + 5, (k + N) // 2, N})
        for n in ns_test:
            for t in range(1, n + 1):
                law = q ** (n - k) if t <= k else pv * q ** (n - t)
                fam.add("retention:k=%d:p=%s:n=%d:t=%d" % (k, p, n, t), ret[n][t], R, law)
        fam.add("acceptance:k=%d:p=%s" % (k, p), accepts, trials, pv)
        if k > 1 and accepts > 0:
            for j in range(k):
                fam.add("slot:k=%d:p=%s:slot=%d" % (k, p, j), slots[j], accepts, 1.0 / k)
        return fam, det, {"draw_ops": R * N, "probes": {"reservoirs": R, "accepts": accepts,
                                                                "scripted_zero_draws_at_p0": zero_draws,
                                                                "scripted_top_draws_at_p1": top_draws,
                                                                "p_as_" + cell.get("ptype", "python_float"): 1}}

    def reductions(self, plan):
        out = []
        c = plan["cell"]
        for N in sorted({c["k"] + 1, c["k"] + 2, c["N"] // 2}):
            if c["k"] < N < c["N"]:
                p = copy.deepcopy(plan)
                p["cell"]["N"] = N
                out.append(p)
        return out


CHECKS = [C08Check, C09Check]


# ----------------------------------------------------------------------------------------------
# C04
# ----------------------------------------------------------------------------------------------

import numpy as np   # noqa: E402
from ixai.explainer import IncrementalPFI   # noqa: E402
from ixai.explainer.sage import IncrementalSage, BatchSage, IntervalSage   # noqa: E402
from ixai.imputer import MarginalImputer   # noqa: E402
from ixai.storage import BatchStorage, IntervalStorage   # noqa: E402
from ixai.utils.wrappers.base import Wrapper   # noqa: E402


def c04_row(tag, d):
    return {"f%d" % j: tag * 8 + j + 1 for j in range(d)}


def c04_tag(v):
    return (int(v) - 1) // 8


class _Model(Wrapper):
    def __init__(self, d):
        super().__init__(None, None)
        self.d = d
        self.log = []
        self.coef = [0.5, -1.25, 2.0, 0.75][:d]

    def f(self, x):
        vals = [x["f%d" % j] % 8 + (x["f%d" % j] // 8) * 0.37 for j in range(self.d)]
        out = sum(c * v for c, v in zip(self.coef, vals))
        if self.d >= 2:
            out += 0.11 * vals[0] * vals[1]
        return out

    def __call__(self, x):
        if isinstance(x, dict):
            self.log.append(x)
            return {"output": self.f(x)}
        return [{"output": self.f(r)} for r in x]


def sq_loss(y, p):
    return (y - p["output"]) ** 2


def make_storage(kind, m):
    if kind == "uniform":
        return UniformReservoirStorage(size=m + 2, store_targets=True)
    if kind == "geometric":
        return GeometricReservoirStorage(size=m, store_targets=True)
    if kind == "interval":
        return IntervalStorage(size=m, store_targets=True)
    return BatchStorage(store_targets=True)


class C04Check(StatCheck):
    prop = "C04"
    design_ref = "DESIGN.md section 4, C04"
    oracle_name = "sampling-law"
    rule = ("cells (explainer, strategy, d, m, n_inner, storage kind): the same explanation step repeated R times under one "
            "seeded stream (alpha=1, update_storage=False: i.i.d. trials); from the model seam each trial yields the feature "
            "order and the stored-row index behind every imputed value; hypotheses: order vs 1/d!, row index vs 1/m per "
            "chain step / observation position, product-strategy pair table vs 1/m^2; joint strategy = one row for all "
            "features (deterministic); Monte-Carlo mean contribution vs exhaustive enumeration (|z| > 7.5)")
    assumptions = ["stored rows carry unique values per (row, feature), so every imputed value identifies its source row",
                   "order statistics drop trials whose order is not identifiable from the inputs (independent of the order)"]

    def cells(self, tier):
        out = []
        ds = (2, 3) if tier == "quick" else (2, 3, 4)
        ms = (2, 3, 5) if tier == "quick" else (2, 3, 5, 8)
        kinds = ["batch", "uniform", "geometric", "interval"]
        i = 0
        for ex in ("pfi", "sage", "many", "orig", "interval"):
            for d in ds:
                for m in ms:
                    strategies = ("joint", "product") if ex in ("pfi", "sage", "many") else ("joint",)
                    for st in strategies:
                        n = 1 + (i % 2)
                        if tier == "quick" and (i % 3 == 2) and ex != "orig":
                            i += 1
                            continue
                        out.append({"explainer": ex, "strategy": st, "d": d, "m": m, "n": n, "storage": kinds[i % 4]})
                        i += 1
        return out

    def R(self, tier, cell):
        base = 40000 if tier == "quick" else 1200000
        work = cell["d"] * cell["n"] * (cell["m"] if cell["explainer"] in ("many", "orig", "interval") else 1)
        return max(6000 if tier == "quick" else 100000, base // max(1, work // 2))

    # -- exhaustive expectation (incremental explainers) ----------------------------------------------
    @staticmethod
    def expected_contributions(cell, model, rows, x, y, l0):
        d, m, n, st = cell["d"], cell["m"], cell["n"], cell["strategy"]
        names = ["f%d" % j for j in range(d)]

        def value(imputed):
            """E[ loss(y, mean of n predictions with `imputed` features resampled) ]"""
            imputed = list(imputed)
            if not imputed:
                return sq_loss(y, {"output": model.f(x)})
            if st == "joint":
                per_sample = [[{f: r[f] for f in imputed}] for r in rows]
                per_sample = [ps[0] for ps in per_sample]
            else:
                per_sample = [dict(zip(imputed, combo)) for combo in
                              itertools.product(*[[r[f] for r in rows] for f in imputed])]
            if len(per_sample) ** n > 20000:
                return None
            tot = 0.0
            cnt = 0
            for combo in itertools.product(per_sample, repeat=n):
                preds = [model.f({**x, **sv}) for sv in combo]
                tot += sq_loss(y, {"output": sum(preds) / n})
                cnt += 1
            return tot / cnt

        if cell["explainer"] == "pfi":
            # PFI averages the n losses (not the predictions)
            out = {}
            for f in names:
                vals = [sq_loss(y, {"output": model.f({**x, f: r[f]})}) for r in rows]
                out[f] = sum(vals) / len(vals) - sq_loss(y, {"output": model.f(x)})
            return out
        cache = {}

        def v(imputed):
            key = tuple(sorted(imputed))
            if key not in cache:
                cache[key] = value(key)
            return cache[key]
        out = {f: 0.0 for f in names}
        perms = list(itertools.permutations(names))
        for order in perms:
            prev = l0
            rem = set(names)
            for f in order:
                rem.discard(f)
                cur = v(rem)
                if cur is None:
                    return None
                out[f] += (prev - cur) / len(perms)
                prev = cur
        return out

    def sample(self, cell, R, rs):
        ex, st, d, m, n = cell["explainer"], cell["strategy"], cell["d"], cell["m"], cell["n"]
        names = ["f%d" % j for j in range(d)]
        seams.reseed(rs)
        model = _Model(d)
        rows = [c04_row(r, d) for r in range(m)]
        ys = [float((3 * r) % 5) - 1.5 for r in range(m)]
        fam = Family()
        det = None
        probes = Counter()
        order_counts = Counter()
        row_counts = Counter()        # (slot label, row index) -> count
        row_trials = Counter()        # slot label -> trials
        pair_counts = Counter()
        pair_trials = 0
        ipair = Counter()             # (row of inner sample 0, row of inner sample 1) in the first chain step
        contrib_sum = None
        contrib_sq = None
        n_contrib = 0
        expected = None

        def decode_step(inputs, x_ref, explained_pos=None):
            """inputs: the n model inputs of one chain step.  Returns (revealed set or None, [per-sample row info])."""
            infos = []
            revealed = None
            for inp in inputs:
                tags = {f: c04_tag(inp[f]) for f in names}
                infos.append(tags)
                same = {f for f in names if inp[f] == x_ref[f]}
                revealed = same if revealed is None else (revealed & same)
            return revealed, infos

        if ex in ("pfi", "sage"):
            storage = make_storage(cell["storage"], m)
            for r, yy in zip(rows, ys):
                storage.update(r, yy)
            imputer = MarginalImputer(model, st, storage)
            cls = IncrementalPFI if ex == "pfi" else IncrementalSage
            e = cls(model_function=model, loss_function=sq_loss, feature_names=names, storage=storage, imputer=imputer,
                    n_inner_samples=n, dynamic_setting=True, smoothing_alpha=1.0)
            x, y = c04_row(10 ** 7, d), 2.25               # a tag no stored row will ever carry
            e.explain_one(x, y, update_storage=False)       # first call only counts the sample
            l0 = sq_loss(y, {"output": model.f(x)})
            expected = self.expected_contributions(cell, model, rows, x, y, l0)
            contrib_sum = {f: 0.0 for f in names}
            contrib_sq = {f: 0.0 for f in names}
            # "defined by the CURRENT storage contents": with a window storage the content is a moving target - another
            # party pushes a new row before every trial, so the window slides while its length stays m
            sliding = cell["storage"] == "interval"
            next_tag = m
            base_tag = 0
            if sliding:
                expected = None
            window_tags = list(range(m))
            last_obj = None
            for trial in range(R):
                duplicate = False
                if sliding:
                    if last_obj is not None and trial % 5 == 4:
                        # another party hands the very same dict object over again (e.g. a second explainer that also
                        # updates the shared storage): the window then holds that row twice
                        storage.update(last_obj, 0.5)
                        window_tags = (window_tags + [window_tags[-1]])[-m:]
                        probes["same_object_pushed_again"] += 1
                    else:
                        last_obj = c04_row(next_tag, d)
                        storage.update(last_obj, 0.5)
                        window_tags = (window_tags + [next_tag])[-m:]
                        next_tag += 1
                    duplicate = len(set(window_tags)) < m
                    base_tag = next_tag - m
                    probes["window_slid"] += 1
                del model.log[:]
                vals = e.explain_one(x, y, update_storage=False)
                log = model.log
                if sliding:
                    stale = None
                    allowed = set(window_tags)
                    for inp in log[1:]:
                        for f in names:
                            if inp[f] != x[f] and c04_tag(inp[f]) not in allowed:
                                stale = (f, inp[f])
                    if stale:
                        det = ("row-not-currently-stored", "feature %s imputed with %r, a value of no row in the current "
                               "window (tags %r)" % (stale[0], stale[1], window_tags))
                        break
                    if duplicate:
                        continue        # a row held twice is twice as likely: left out of the uniformity statistics
                    # positions inside the current window play the role of row indices
                    log = [log[0]] + [{f: (v if v == x[f] else (c04_tag(v) - base_tag) * 8 + j + 1)
                                       for j, (f, v) in enumerate(((f, inp[f]) for f in names))} for inp in log[1:]]
                if len(log) != 1 + d * n:
                    det = ("evaluation-count", "%d model evaluations in one step, expected %d" % (len(log), 1 + d * n))
                    break
                for f in names:
                    v = float(vals[f])
                    contrib_sum[f] += v
                    contrib_sq[f] += v * v
                n_contrib += 1
                if ex == "pfi":
                    for j, f in enumerate(names):
                        for s in range(n):
                            inp = log[1 + j * n + s]
                            lab = "row:pfi:%s" % f
                            row_counts[(lab, c04_tag(inp[f]))] += 1
                            row_trials[lab] += 1
                    if n >= 2:
                        ipair[(c04_tag(log[1][names[0]]), c04_tag(log[2][names[0]]))] += 1
                    continue
                order = []
                known = set()
                ok = True
                for j in range(d):
                    inputs = log[1 + j * n: 1 + (j + 1) * n]
                    revealed, infos = decode_step(inputs, x)
                    new = revealed - known
                    if len(new) != 1 or not known <= revealed:
                        ok = False
                        det = ("chain-shape", "step %d reveals %r after %r" % (j, sorted(revealed), sorted(known)))
                        break
                    f_new = next(iter(new))
                    order.append(f_new)
                    known = revealed
                    imputed = [f for f in names if f not in revealed]
                    for tags in infos:
                        if not imputed:
                            continue
                        if st == "joint":
                            rs_ = {tags[f] for f in imputed}
                            if len(rs_) != 1:
                                det = ("joint-rows-mixed", "joint strategy imputed %r from rows %r" % (imputed, sorted(rs_)))
                                ok = False
                                break
                            lab = "row:sage:step%d" % j
                            row_counts[(lab, next(iter(rs_)))] += 1
                            row_trials[lab] += 1
                        else:
                            for f in imputed:
                                lab = "row:sage:step%d:%s" % (j, f)
                                row_counts[(lab, tags[f])] += 1
                                row_trials[lab] += 1
                            if j == 0 and len(imputed) >= 2:
                                pair_counts[(tags[imputed[0]], tags[imputed[1]], imputed[0], imputed[1])] += 1
                    if ok and j == 0 and n >= 2 and imputed:
                        ipair[(infos[0][imputed[0]], infos[1][imputed[0]])] += 1
                    if not ok:
                        break
                if not ok:
                    break
                order_counts[tuple(order)] += 1
        else:
            # batch explainers: per-observation chains
            if ex == "many":
                st_obj = BatchStorage(store_targets=True)
                for r, yy in zip(rows, ys):
                    st_obj.update(r, yy)
                if st == "joint":       # the explainer's own default imputer
                    e = BatchSage(model_function=model, feature_names=names, loss_function=sq_loss, n_inner_samples=n,
                                  storage=st_obj)
                else:
                    e = BatchSage(model_function=model, feature_names=names, loss_function=sq_loss, n_inner_samples=n,
                                  storage=st_obj, imputer=MarginalImputer(model, "product", st_obj))
                x_data = [c04_row(100 + i, d) for i in range(2)]
                y_data = [1.5, -0.5]
                call = lambda: e.explain_many(x_data, y_data, verbose=False)   # noqa: E731
                in_data = False
            elif ex == "orig":
                e = BatchSage(model_function=model, feature_names=names, loss_function=sq_loss, n_inner_samples=n)
                x_data, y_data = rows, ys
                call = lambda: e.explain_many_original(x_data, y_data, verbose=False)   # noqa: E731
                in_data = True
            else:
                e = IntervalSage(model_function=model, feature_names=names, loss_function=sq_loss, n_inner_samples=n,
                                 interval_length=10 ** 9, storage_length=m)
                for r, yy in zip(rows[:-1], ys[:-1]):
                    e.update_storage(r, yy)
                e.explain_one(rows[-1], ys[-1], verbose=False)   # stores the last row; no recomputation
                x_data, y_data = rows, ys
                call = lambda: e.explain_one(rows[-1], ys[-1], update_storage=False, force_explain=True, verbose=False)  # noqa: E731
                in_data = True
            N = len(x_data)
            for _ in range(R):
                del model.log[:]
                call()
                log = model.log
                if len(log) != N * d * n:
                    det = ("evaluation-count", "%d single model evaluations for %d rows, expected %d"
                           % (len(log), N, N * d * n))
                    break
                for i, x in enumerate(x_data):
                    base = i * d * n
                    order = []
                    known = set()
                    order_ok = True
                    for j in range(d):
                        inputs = log[base + j * n: base + (j + 1) * n]
                        if in_data:
                            # background row: the row other than the explained one that any feature points to
                            any_other = False
                            revealed = None
                            bg_rows = []
                            for inp in inputs:
                                tags = {c04_tag(inp[f]) for f in names}
                                other = tags - {i}
                                if len(other) > 1:
                                    det = ("joint-rows-mixed", "one model input mixes rows %r" % sorted(tags))
                                    break
                                r_bg = next(iter(other)) if other else i
                                bg_rows.append(r_bg)
                                if j < d - 1:
                                    lab = "row:%s:pos%d" % (ex, i)
                                    row_counts[(lab, r_bg)] += 1
                                    row_trials[lab] += 1
                                if other:
                                    any_other = True
                                    same = {f for f in names if inp[f] == x[f]}
                                    revealed = same if revealed is None else (revealed & same)
                            if det:
                                break
                            if j == 0 and n >= 2 and d >= 2 and i == 0 and len(bg_rows) >= 2:
                                ipair[(bg_rows[0], bg_rows[1])] += 1
                            if order_ok and j < d - 1:
                                if not any_other:
                                    order_ok = False
                                else:
                                    new = revealed - known
                                    if len(new) != 1 or not known <= revealed:
                                        det = ("chain-shape", "row %d step %d reveals %r after %r"
                                               % (i, j, sorted(revealed), sorted(known)))
                                        break
                                    order.append(next(iter(new)))
                                    known = revealed
                            elif order_ok and j == d - 1:
                                rest = [f for f in names if f not in known]
                                if len(rest) == 1:
                                    order.append(rest[0])
                                else:
                                    order_ok = False
                        else:
                            revealed, infos = decode_step(inputs, x)
                            new = revealed - known
                            if len(new) != 1 or not known <= revealed:
                                det = ("chain-shape", "row %d step %d reveals %r after %r"
                                       % (i, j, sorted(revealed), sorted(known)))
                                break
                            order.append(next(iter(new)))
                            known = revealed
                            imputed = [f for f in names if f not in revealed]
                            for tags in infos:
                                if not imputed:
                                    continue
                                if st == "joint":
                                    rs_ = {tags[f] for f in imputed}
                                    if len(rs_) != 1:
                                        det = ("joint-rows-mixed", "joint strategy imputed %r from rows %r"
                                               % (imputed, sorted(rs_)))
                                        break
                                    lab = "row:many:pos%d:step%d" % (i, j)
                                    row_counts[(lab, next(iter(rs_)))] += 1
                                    row_trials[lab] += 1
                                else:
                                    for f in imputed:
                                        lab = "row:many:pos%d:%s" % (i, f)
                                        row_counts[(lab, tags[f])] += 1
                                        row_trials[lab] += 1
                                    if j == 0 and len(imputed) >= 2 and i == 0:
                                        pair_counts[(tags[imputed[0]], tags[imputed[1]], imputed[0], imputed[1])] += 1
                            if not det and j == 0 and i == 0 and n >= 2 and imputed:
                                ipair[(infos[0][imputed[0]], infos[1][imputed[0]])] += 1
                            if det:
                                break
                    if det:
                        break
                    if order_ok and len(order) == d:
                        order_counts[("pos%d" % i,) + tuple(order)] += 1
                    else:
                        probes["order_unidentifiable"] += 1
                if det:
                    break
        if det:
            return fam, det, {"draw_ops": R, "probes": dict(probes)}
        # ---- hypotheses ------------------------------------------------------------------------------
        nperm = math.factorial(d)
        if ex in ("sage",):
            tot = sum(order_counts.values())
            for order in itertools.permutations(names):
                fam.add("order:%s:%s" % (ex, ">".join(order)), order_counts[tuple(order)], tot, 1.0 / nperm)
        elif ex != "pfi":
            positions = sorted({k[0] for k in order_counts})
            for pos in positions:
                tot = sum(c for k, c in order_counts.items() if k[0] == pos)
                for order in itertools.permutations(names):
                    fam.add("order:%s:%s:%s" % (ex, pos, ">".join(order)), order_counts[(pos,) + tuple(order)], tot,
                            1.0 / nperm)
        n_rows = m
        for lab, trials in sorted(row_trials.items()):
            for r in range(n_rows):
                fam.add("%s:r%d" % (lab, r), row_counts[(lab, r)], trials, 1.0 / n_rows)
        if pair_counts:
            pairs = sorted({(k[2], k[3]) for k in pair_counts})
            for fa, fb in pairs:
                tot = sum(c for k, c in pair_counts.items() if (k[2], k[3]) == (fa, fb))
                for ra in range(m):
                    for rb in range(m):
                        fam.add("pair:%s:%s,%s:r%d,r%d" % (ex, fa, fb, ra, rb), pair_counts[(ra, rb, fa, fb)], tot,
                                1.0 / (m * m))
        if ipair:
            # independence of the n inner samples: (row of sample 0, row of sample 1) is uniform over m x m
            tot = sum(ipair.values())
            for ra in range(m):
                for rb in range(m):
                    fam.add("innerpair:%s:r%d,r%d" % (ex, ra, rb), ipair[(ra, rb)], tot, 1.0 / (m * m))
        # ---- Monte-Carlo mean vs exhaustive enumeration --------------------------------------------------
        extra_det = None
        if expected is not None and n_contrib > 1000:
            probes["mc_mean_checked"] += 1
            for f in names:
                mean = contrib_sum[f] / n_contrib
                var = max(contrib_sq[f] / n_contrib - mean * mean, 0.0)
                se = math.sqrt(var / n_contrib)
                dev = abs(mean - expected[f])
                if se == 0.0:
                    bad = dev > 1e-9 * max(1.0, abs(expected[f]))
                    z = float("inf") if bad else 0.0
                else:
                    z = dev / se
                    bad = z > 7.5 and dev > 1e-9 * max(1.0, abs(expected[f]))
                if bad:
                    # expressed as a (pseudo-)hypothesis so that the confirmation batch applies to it too
                    fam.add("mcmean:%s:%s" % (ex, f), 0, 1, 1.0)
                    probes["mc_mean_z_exceeded"] += 1
                    extra_det = (f, mean, expected[f], z)
        ex_info = {"draw_ops": R * (1 + d * n), "probes": dict(probes)}
        if extra_det:
            ex_info["mc"] = extra_det
        return fam, None, ex_info

    def reductions(self, plan):
        out = []
        c = plan["cell"]
        if c["n"] > 1:
            p = copy.deepcopy(plan)
            p["cell"]["n"] = 1
            out.append(p)
        if c["m"] > 2:
            p = copy.deepcopy(plan)
            p["cell"]["m"] = c["m"] - 1
            out.append(p)
        if c["d"] > 2:
            p = copy.deepcopy(plan)
            p["cell"]["d"] = c["d"] - 1
            out.append(p)
        if c["storage"] != "batch":
            p = copy.deepcopy(plan)
            p["cell"]["storage"] = "batch"
            out.append(p)
        return out


CHECKS = [C08Check, C09Check, C04Check]

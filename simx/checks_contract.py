"""C15 (call contract), C16 (normalisation / confidence bounds), C17 (fault atomicity)."""
import copy

from . import seeds
from .checks_explainers import ExplainerCheck
from .plan import (gen_explainer_plan, gen_batch_plan, gen_world_config, gen_schedule, strip_private, wchoice,
                   gen_batch_config, gen_batch_schedule, Builder)
from .oracles.explainers import C15Oracle, C16Oracle, C17Oracle

NAME_KINDS = ["str", "int", "float", "mixed"]


class C15Check(ExplainerCheck):
    prop = "C15"
    oracle_classes = (C15Oracle,)
    design_ref = "DESIGN.md section 4, C15"
    runs = {"quick": 2400, "thorough": 120000}

    def gen(self, seed, tier, run_index):
        rng = seeds.run_rng(seed, self.prop, tier, run_index)
        nk = NAME_KINDS[run_index % 4]
        stratum = (run_index // 4) % 6
        if stratum in (0, 1):
            plan = gen_batch_plan(rng, self.prop, names_kind=nk, classes=["batch"] if stratum == 0 else ["interval"])
            cfg = plan["config"]
        else:
            focus = "sage" if stratum in (2, 3) else "pfi"
            plan = gen_explainer_plan(rng, self.prop, focus, names_kind=nk)
            cfg = plan["config"]
        # documented-required-arguments-only stratum: strip every optional constructor argument
        if (run_index // 24) % 3 == 0:
            e0 = cfg["explainers"][0]
            for key in [k for k in e0 if k not in ("cls", "positional")]:
                del e0[key]
            # a schedule generated for other settings may now estimate on an empty own storage: regenerate
            rng2 = seeds.run_rng(seed, self.prop + "/defaults", tier, run_index)
            if e0["cls"] in ("batch", "interval"):
                plan["ops"] = gen_batch_schedule(rng2, cfg)
            else:
                plan["ops"] = gen_schedule(rng2, cfg)
            strip_private(cfg)
        return plan


class C16Check(ExplainerCheck):
    prop = "C16"
    oracle_classes = (C16Oracle,)
    design_ref = "DESIGN.md section 4, C16"
    runs = {"quick": 2400, "thorough": 120000}

    def gen(self, seed, tier, run_index):
        rng = seeds.run_rng(seed, self.prop, tier, run_index)
        stratum = run_index % 8
        arith = wchoice(rng, [("exact", 30), ("float", 45), ("npfloat", 25)])
        kw = {"arith": arith}
        if stratum == 2:
            kw["d"] = 1
        focus = "pfi" if stratum in (0, 3, 5) else "sage" if stratum in (1, 4) else "mixed"
        cfg = gen_world_config(rng, focus, **kw)
        if stratum == 0:            # constant model: all-zero PFI values (NumPy floats in float worlds)
            cfg["model"] = {"family": "const", "seed": cfg["model"]["seed"]}
        elif stratum == 1:          # alpha = 1: last contributions only -> sign-mixed, possibly zero-sum
            for e in cfg["explainers"]:
                if e["cls"] in ("pfi", "sage"):
                    e["dynamic"] = True
                    e["alpha"] = [1, 1]
        elif stratum == 3:          # the model ignores all but one feature
            d = len(cfg["names"])
            if d >= 2 and cfg["model"]["family"] in ("linear", "hash", "inter", "multi"):
                keep = rng.randrange(d)
                cfg["model"]["ignore"] = [j for j in range(d) if j != keep]
        elif stratum == 4:          # integer-valued losses with alpha = 1 (Python ints / exact integers)
            cfg["model"]["family"] = "linear" if cfg["model"]["family"] not in ("linear", "hash") else cfg["model"]["family"]
            cfg["model"].pop("labels", None)
            cfg["loss"]["family"] = "lin"
        ops = gen_schedule(rng, cfg, mix=[("explain", 62), ("learn", 8), ("store", 6), ("observe", 24)])
        strip_private(cfg)
        return {"property": self.prop, "kind": "explainer", "config": cfg, "ops": ops, "rs0": rng.getrandbits(48)}


CHECKS = [C15Check, C16Check]

"""C15 (call contract), C16 (normalisation / confidence bounds), C17 (fault atomicity)."""
import copy

from . import seeds
from .checks_explainers import ExplainerCheck
from .plan import (gen_explainer_plan, gen_batch_plan, gen_world_config, gen_schedule, strip_private, wchoice,
                   gen_batch_config, gen_batch_schedule, Builder)
from .oracles.explainers import C15Oracle, C16Oracle, C17Oracle
from .execute import run_plan

NAME_KINDS = ["str", "int", "float", "mixed"]


class C15Check(ExplainerCheck):
    prop = "C15"
    oracle_classes = (C15Oracle,)
    design_ref = "DESIGN.md section 4, C15"
    runs = {"quick": 2400, "thorough": 400000}

    def gen(self, seed, tier, run_index):
        rng = seeds.run_rng(seed, self.prop, tier, run_index)
        nk = NAME_KINDS[run_index % 4]
        stratum = (run_index // 4) % 6
        if run_index % 40 == 29:
            from .plan import gen_long_interval_plan
            plan = gen_long_interval_plan(rng, self.prop, names_kind=nk)
            cfg = plan["config"]
        elif stratum in (0, 1):
            plan = gen_batch_plan(rng, self.prop, names_kind=nk, classes=["batch"] if stratum == 0 else ["interval"])
            cfg = plan["config"]
        else:
            focus = "sage" if stratum in (2, 3) else "pfi"
            plan = gen_explainer_plan(rng, self.prop, focus, names_kind=nk,
                                      long=(run_index % 50 == 27 if tier == "thorough" else run_index % 100 == 27))
            cfg = plan["config"]
        # documented-required-arguments-only stratum: strip every optional constructor argument
        if (run_index // 24) % 3 == 0:
            e0 = cfg["explainers"][0]
            for key in [k for k in e0 if k not in ("cls", "positional")]:
                del e0[key]
            # a schedule generated for other settings may now estimate on an empty own storage: regenerate
            rng2 = seeds.run_rng(seed, self.prop + "/defaults", tier, run_index)
            if e0["cls"] in ("batch", "interval"):
                plan["ops"] = gen_batch_schedule(rng2, cfg)
            else:
                plan["ops"] = gen_schedule(rng2, cfg)
            strip_private(cfg)
        if cfg.get("arith") == "float" and cfg["loss"]["family"] in ("sq", "abs", "lin") and run_index % 40 == 11:
            # constructor override: smoothing_alpha = 1 given as a narrow NumPy integer (dynamic mode), integer-valued losses
            for e in cfg["explainers"]:
                if e["cls"] in ("pfi", "sage"):
                    e["dynamic"] = True
                    e["alpha"] = [1, 1]
                    e["alpha_type"] = "uint8" if (run_index // 40) % 2 else "int8"
            cfg["loss"]["family"] = "npuint8" if (run_index // 80) % 2 else "lin"
            cfg["loss"].pop("scale_exp", None)
        elif cfg.get("arith") == "float" and cfg["loss"]["family"] in ("sq", "abs", "lin") and run_index % 5 == 2:
            # "accepts any loss with the documented positional signature": also one that reports its zero-one value as
            # an unsigned or boolean NumPy scalar (C15 compares no values, so the discontinuity does not matter here)
            cfg["loss"]["family"] = "npbool" if (run_index // 5) % 2 else "npuint8"
            cfg["loss"].pop("scale_exp", None)
        return plan


class C16Check(ExplainerCheck):
    prop = "C16"
    oracle_classes = (C16Oracle,)
    design_ref = "DESIGN.md section 4, C16"
    runs = {"quick": 2400, "thorough": 500000}

    def gen(self, seed, tier, run_index):
        rng = seeds.run_rng(seed, self.prop, tier, run_index)
        stratum = run_index % 8
        arith = wchoice(rng, [("exact", 28), ("float", 40), ("npfloat", 22), ("npfloat32", 10)])
        kw = {"arith": arith}
        if stratum == 2:
            kw["d"] = 1
        focus = "pfi" if stratum in (0, 3, 5) else "sage" if stratum in (1, 4) else "mixed"
        cfg = gen_world_config(rng, focus, **kw)
        if stratum == 0:            # constant model: all-zero PFI values (NumPy floats in float worlds)
            cfg["model"] = {"family": "const", "seed": cfg["model"]["seed"]}
        elif stratum == 1:          # alpha = 1: last contributions only -> sign-mixed, possibly zero-sum
            for e in cfg["explainers"]:
                if e["cls"] in ("pfi", "sage"):
                    e["dynamic"] = True
                    e["alpha"] = [1, 1]
        elif stratum == 3:          # the model ignores all but one feature
            d = len(cfg["names"])
            if d >= 2 and cfg["model"]["family"] in ("linear", "hash", "inter", "multi"):
                keep = rng.randrange(d)
                cfg["model"]["ignore"] = [j for j in range(d) if j != keep]
        elif stratum == 4:          # integer-valued losses with alpha = 1 (Python ints / exact integers)
            cfg["model"]["family"] = "linear" if cfg["model"]["family"] not in ("linear", "hash") else cfg["model"]["family"]
            cfg["model"].pop("labels", None)
            cfg["loss"]["family"] = "lin"
        if arith == "float" and cfg["loss"]["family"] in ("sq", "abs", "lin") and rng.random() < 0.15:
            cfg["loss"]["scale_exp"] = rng.choice([150, 300, 312, 318])      # down into the subnormal range
        long_run = run_index % (40 if tier == "thorough" else 80) == 13 and arith != "exact"
        if stratum == 1 and run_index % 80 == 41 and arith in ("float", "npfloat"):
            # alpha = 1 as a narrow NumPy integer, on a stream long enough for the sample counter to leave that type
            long_run = True
            for e in cfg["explainers"]:
                if e["cls"] in ("pfi", "sage"):
                    e["alpha_type"] = "int8" if (run_index // 80) % 2 else "uint8"
            cfg["loss"]["family"] = "sq" if cfg["loss"]["family"] not in ("sq", "abs") else cfg["loss"]["family"]
        ops = gen_schedule(rng, cfg, mix=[("explain", 62), ("learn", 8), ("store", 6), ("observe", 24)],
                           T=rng.randint(260, 420) if long_run and stratum == 1 and run_index % 80 == 41 else
                           rng.randint(100, 300) if long_run else None)
        strip_private(cfg)
        return {"property": self.prop, "kind": "explainer", "config": cfg, "ops": ops, "rs0": rng.getrandbits(48)}


CHECKS = [C15Check, C16Check]


# ----------------------------------------------------------------------------------------------
# C17: fault enumeration
# ----------------------------------------------------------------------------------------------

EXCS = ["InjectedFault", "InjectedFault", "InjectedFault", "KeyError", "ZeroDivisionError", "AttributeError",
        "ValueError", "TypeError", "IndexError", "StopIteration", "RuntimeError", "KeyboardInterrupt", "GeneratorExit"]


def callout_bound(cfg, k, rows=4):
    e = cfg["explainers"][k]
    d = len(cfg["names"])
    n = 4
    if e["cls"] in ("pfi", "sage"):
        return 4 + d * (1 + 2 * n) + 1
    return 3 + rows * (1 + d * (2 + n))


def prestore_ops(rng, cfg, builder):
    """Make every storage non-empty before the schedule starts, so that a failed call never leaves a later
    estimating step on an empty storage (that would be a second, natural fault hiding the first)."""
    for sid in range(len(cfg["storages"])):
        builder.store(("explicit", sid))
    for k, e in enumerate(cfg["explainers"]):
        if "storage" not in e:
            builder.store(("own", k))


def small_base(rng, cls):
    """A small deployment for exhaustive crash-point enumeration."""
    arith = "exact" if rng.random() < 0.8 else "float"
    d = rng.randint(1, 3)
    from .plan import gen_names, gen_model, gen_loss
    names, nk = gen_names(rng, d)
    model = gen_model(rng, d, arith, allow=("linear", "hash", "multi"))
    loss = gen_loss(rng, arith, model)
    n_inner = rng.randint(1, 2)
    storages, imputers = [], []
    e = {"cls": cls, "n_inner": n_inner}
    if cls in ("pfi", "sage"):
        storages.append({"kind": rng.choice(["batch", "uniform", "geometric", "interval"]), "size": rng.randint(1, 3)})
        if storages[0]["kind"] == "batch":
            storages[0].pop("size")
        e["storage"] = 0
        ik = rng.choice(["marginal-joint", "marginal-product", "stub", "default", "absent"])
        if ik.startswith("marginal"):
            imputers.append({"kind": "marginal", "strategy": ik.split("-")[1], "storage": 0})
            e["imputer"] = 0
        elif ik == "stub":
            imputers.append({"kind": "stub", "seed": rng.getrandbits(32)})
            e["imputer"] = 0
        elif ik == "default":
            imputers.append({"kind": "default"})
            e["imputer"] = 0
        e["dynamic"] = rng.random() < 0.5
        if e["dynamic"]:
            e["alpha"] = rng.choice([[1, 2], [1, 3], [1, 10], [1, 1]])
        if cls == "sage" and rng.random() < 0.5:
            e["lbib"] = True
    elif cls == "interval":
        e["interval_length"] = rng.randint(1, 2)
        e["storage_length"] = rng.randint(1, 3)
        if rng.random() < 0.5:
            storages.append({"kind": "interval", "size": e["storage_length"], "targets": True})
            e["storage"] = 0
            if rng.random() < 0.5:
                imputers.append({"kind": "marginal", "strategy": "joint", "storage": 0})
                e["imputer"] = 0
    else:
        if rng.random() < 0.5:
            storages.append({"kind": "batch", "targets": True})
            e["storage"] = 0
            if rng.random() < 0.5:
                imputers.append({"kind": "marginal", "strategy": "product", "storage": 0})
                e["imputer"] = 0
    if arith == "exact" and loss["family"] == "hash" and cls in ("pfi", "sage") and e.get("dynamic") and "alpha" not in e:
        loss["family"] = "sq"
    cfg = {"arith": arith, "names": names, "names_kind": nk, "seed": rng.getrandbits(32), "values": "unique",
           "model": model, "loss": loss, "storages": storages, "imputers": imputers, "explainers": [e],
           "rng": "perop"}
    b = Builder(rng, cfg)
    prestore_ops(rng, cfg, b)
    pos = rng.choice([2, 3, 3, 4])
    for _ in range(pos - 1):
        b.explain(0, allow_us_false=False, p_override=0.0)
        if rng.random() < 0.3:
            b.add({"op": "learn"})
    target = b.explain(0, allow_us_false=False, p_override=0.0)
    target_index = len(b.ops) - 1
    for _ in range(rng.randint(2, 4)):
        if rng.random() < 0.3:
            b.add({"op": "learn"})
        b.explain(0, allow_us_false=False, p_override=0.0)
        if rng.random() < 0.4:
            b.add({"op": "observe", "e": 0})
    d_ = len(names)
    if cls in ("pfi", "sage"):
        K = 3 + d_ * (1 + 2 * n_inner) + 2
    else:
        rows = min(pos + 1, 4)
        K = 3 + rows * (1 + d_ * (2 + n_inner)) + 1
    return cfg, b.ops, target_index, K


class C17Check(ExplainerCheck):
    prop = "C17"
    level = "fault_enumeration"
    oracle_classes = (C17Oracle,)
    design_ref = "DESIGN.md section 4, C17"
    n_base = {"quick": 40, "thorough": 400}
    n_random = {"quick": 2000, "thorough": 300000}
    rule = ("enumerated part: for each of N small base deployments (10 per explainer class at the quick tier) one run per "
            "crash point k = 1..K, the k-th call-out of any kind (model, loss, imputer, storage) inside a chosen "
            "estimating explain_one raises; random part: seeded (configuration, schedule, up to 3 faulted operations, "
            "call-out kind, k, exception type, consecutive faults, natural empty-storage faults). Non-trivial = at least "
            "one fault actually fired; distinct = distinct seam-history digest")

    def __init__(self):
        self._tables = {}

    def table(self, seed, tier):
        key = (seed, tier)
        t = self._tables.get(key)
        if t is None:
            t = []
            classes = ["pfi", "sage", "batch", "interval"]
            for j in range(self.n_base[tier]):
                rng = seeds.run_rng(seed, self.prop + "/base", tier, j)
                cfg, ops, ti, K = small_base(rng, classes[j % 4])
                for k in range(1, K + 1):
                    t.append((j, k))
            self._tables[key] = t
        return t

    def n_runs(self, tier):
        return len(self.table(seeds.verif_seed(), tier)) + self.n_random[tier]

    def gen(self, seed, tier, run_index):
        table = self.table(seed, tier)
        if run_index < len(table):
            j, k = table[run_index]
            rng = seeds.run_rng(seed, self.prop + "/base", tier, j)
            classes = ["pfi", "sage", "batch", "interval"]
            cfg, ops, ti, K = small_base(rng, classes[j % 4])
            ops = copy.deepcopy(ops)
            ops[ti]["fault"] = {"kind": "any", "k": k, "exc": EXCS[(j + k) % len(EXCS)]}
            strip_private(cfg)
            return {"property": self.prop, "kind": "explainer", "config": cfg, "ops": ops, "rs0": 1,
                    "enumerated": {"base": j, "k": k, "K": K}}
        rng = seeds.run_rng(seed, self.prop, tier, run_index)
        style = wchoice(rng, [("incremental", 60), ("batch", 20), ("natural", 20)])
        if style == "batch":
            cfg = gen_batch_config(rng)
            b = Builder(rng, cfg)
            prestore_ops(rng, cfg, b)
            pre = b.ops
            ops = pre + gen_batch_schedule(rng, cfg)
        else:
            cfg = gen_world_config(rng, "mixed")
            if rng.random() < 0.3 and cfg["arith"] != "npfloat":
                # label sets that grow when the model learns, with labels omitted by later predictions
                cfg["model"] = {"family": "multi", "seed": rng.getrandbits(32), "labels": rng.randint(2, 4), "grow": True,
                                "omit": rng.random() < 0.7}
                if cfg["loss"]["family"] == "river":       # a single-value metric does not fit a label-dict model
                    from .plan import gen_loss
                    cfg["loss"] = gen_loss(rng, cfg["arith"], cfg["model"])
            b = Builder(rng, cfg)
            if style == "incremental":
                prestore_ops(rng, cfg, b)
            pre = b.ops
            ops = pre + gen_schedule(rng, cfg)
        if style == "natural":
            # estimating steps on an empty storage raise on their own (random.randrange(0)): declare them
            k = rng.randrange(len(cfg["explainers"]))
            e = cfg["explainers"][k]
            if e["cls"] in ("pfi", "sage"):
                head = [{"op": "explain", "e": k, "tag": 900, "us": False, "rs": rng.getrandbits(48)},
                        {"op": "explain", "e": k, "tag": 901, "us": False, "rs": rng.getrandbits(48), "expect_raise": True},
                        {"op": "explain", "e": k, "tag": 902, "us": False, "rs": rng.getrandbits(48), "expect_raise": True}]
                b2 = Builder(rng, cfg)
                b2.next_tag = 950
                prestore_ops(rng, cfg, b2)
                ops = head + b2.ops + ops
        # inject faults into explain operations
        idxs = [i for i, op in enumerate(ops) if op["op"] == "explain" and not op.get("expect_raise")]
        rng.shuffle(idxs)
        if rng.random() < 0.4:
            # bias: the first explain after a learn operation (a label set may just have grown)
            after_learn = [i for i in idxs if i > 0 and ops[i - 1]["op"] == "learn"]
            if after_learn:
                idxs.remove(after_learn[0])
                idxs.insert(0, after_learn[0])
        n_f = wchoice(rng, [(1, 50), (2, 30), (3, 20)])
        chosen = sorted(idxs[:n_f])
        if chosen and rng.random() < 0.3 and chosen[0] + 1 < len(ops):
            # consecutive faults: also fault the next explain operation after the first chosen one
            nxt = [i for i in idxs if i > chosen[0]]
            if nxt:
                chosen.append(min(nxt))
        for i in set(chosen):
            op = ops[i]
            kind = wchoice(rng, [("any", 40), ("model", 20), ("loss", 20), ("imputer", 10), ("storage", 10)])
            bound = callout_bound(cfg, op["e"])
            if kind == "storage":
                kk = 1
            elif kind == "imputer":
                kk = rng.randint(1, len(cfg["names"]) * 4)
            elif kind == "any":
                kk = rng.randint(1, bound)
            else:
                kk = rng.randint(1, max(1, bound // 2))
            if rng.random() < 0.5:
                kk = max(1, min(kk, rng.randint(1, 6)))      # bias to early call-outs, which always exist
            op["fault"] = {"kind": kind, "k": kk, "exc": rng.choice(EXCS)}
        strip_private(cfg)
        return {"property": self.prop, "kind": "explainer", "config": cfg, "ops": ops, "rs0": rng.getrandbits(48)}

    def nontrivial(self, res):
        return sum(res.get("faults_fired", {}).values()) > 0 or any(k.startswith("fault:") for k in res.get("probes", {}))

    def run(self, plan):
        res = super().run(plan)
        fired = sum(res.get("faults_fired", {}).values()) + sum(
            n for k, n in res.get("probes", {}).items() if k.startswith("fault:") and k.endswith(":natural"))
        if res.get("aborted") and res["ok"] and fired > 0:
            # The library raised on its own in a fault-free operation AFTER an earlier call had failed.  Control run:
            # the same plan without the injected faults.  If that runs past this point, the crash is a consequence of the
            # earlier failure ("after catching the error and continuing the stream ..." is impossible): a C17 violation.
            at = res.get("aborted_at", 0)
            # control (a): the faulted operations run without their fault; control (b): they do not happen at all (a
            # storage that raised was legitimately not updated, so a later natural empty-storage error is not a
            # consequence of broken atomicity).  Only if BOTH controls get past this operation is the crash blamed on
            # what the failed call left behind in the explainer.
            control_a = copy.deepcopy(plan)
            for op in control_a["ops"]:
                op.pop("fault", None)
            control_b = copy.deepcopy(plan)
            fired_ops = set(res.get("fired_ops", []))
            removed_before = sum(1 for j in fired_ops if j < at)
            control_b["ops"] = [op for j, op in enumerate(control_b["ops"]) if j not in fired_ops]
            for op in control_b["ops"]:
                op.pop("fault", None)
            passed = True
            for control, at_c in ((control_a, at), (control_b, at - removed_before)):
                cres = run_plan(control, lambda world, p: [])
                cres.pop("world", None)
                if cres.get("aborted") and cres.get("aborted_at", -1) <= at_c:
                    passed = False
                    break
            if passed:
                op = plan["ops"][at]
                res["ok"] = False
                res["violation"] = {"property": "C17", "oracle": "resumed-stream-raised", "op_index": at,
                                    "detail": "after an earlier failed call, fault-free operation %d (%s) raised %s; the same "
                                              "schedule runs through both without the injected fault and without the failed "
                                              "call" % (at, op.get("op"), res["aborted"]),
                                    "cls": plan["config"]["explainers"][op["e"]]["cls"] if "e" in op else None}
                res["aborted"] = None
        return res

    def reductions(self, plan):
        out = []
        # drop faults one at a time, then the generic structural reductions
        for i, op in enumerate(plan["ops"]):
            if "fault" in op:
                p = copy.deepcopy(plan)
                del p["ops"][i]["fault"]
                out.append(p)
                if op["fault"].get("exc", "InjectedFault") != "InjectedFault":
                    p = copy.deepcopy(plan)
                    p["ops"][i]["fault"]["exc"] = "InjectedFault"
                    out.append(p)
        return out + super().reductions(plan)


CHECKS = [C15Check, C16Check, C17Check]

#!/usr/bin/env python3
"""Validate a seeded change delivered by an independent sub-agent and record it under /verif/seeded/<id>/.

usage: seed_import.py <seed-id> <property> <patch.diff> <demo.py> [extra checks...]
Steps (all in a scratch clone of /repo under /tmp, removed afterwards):
  demo on the unmodified clone -> must exit 0;  git apply patch;  demo -> must exit non-zero;
  repository test suite -> 36 passed / same 2 always-fail;  quick check(s) of the property against the clone."""
import json
import os
import shutil
import subprocess
import sys
import tempfile
import time

VERIF = os.path.dirname(os.path.dirname(os.path.abspath(__file__)))
PY = "/venv/bin/python"


def run(cmd, cwd, env, timeout=3600):
    p = subprocess.run(cmd, cwd=cwd, env=env, capture_output=True, text=True, timeout=timeout)
    return p.returncode, (p.stdout + p.stderr)


def main():
    sid, prop, patch, demo = sys.argv[1:5]
    checks = [prop] + sys.argv[5:]
    scratch = tempfile.mkdtemp(prefix="simx_seed_", dir="/tmp")
    meta = {"id": sid, "property": prop, "ran": []}
    try:
        dst = os.path.join(scratch, "repo")
        subprocess.run(["git", "clone", "-q", "--no-hardlinks", "/repo", dst], check=True)
        env = dict(os.environ, PYTHONPATH=dst, PYTHONHASHSEED="0")
        shutil.copy(demo, os.path.join(dst, "demo_seed.py"))
        rc0, out0 = run([PY, "demo_seed.py"], dst, env)
        meta["ran"].append({"cmd": "demo on unmodified code", "exit": rc0, "tail": out0.strip().splitlines()[-1:] })
        ap = subprocess.run(["git", "-C", dst, "apply", os.path.abspath(patch)], capture_output=True, text=True)
        if ap.returncode != 0:
            print("PATCH DOES NOT APPLY:", ap.stderr)
            return 2
        rc1, out1 = run([PY, "demo_seed.py"], dst, env)
        meta["ran"].append({"cmd": "demo with the change", "exit": rc1, "tail": out1.strip().splitlines()[-2:]})
        rct, outt = run([PY, "-m", "pytest", "-q", "-p", "no:cacheprovider", "--timeout=900", "tests"], dst, env)
        tail = outt.strip().splitlines()[-1] if outt.strip() else ""
        meta["ran"].append({"cmd": "repository test suite with the change", "result": tail})
        ok = rc0 == 0 and rc1 != 0 and "36 passed" in tail
        meta["valid"] = ok
        print("demo clean exit=%d, demo changed exit=%d, tests: %s -> %s" % (rc0, rc1, tail, "VALID" if ok else "INVALID"))
        results = {}
        for c in checks:
            cenv = dict(os.environ)
            cenv.update({"PYTHONHASHSEED": "0", "PYTHONPATH": dst + os.pathsep + VERIF, "VERIF_REPO": dst,
                         "VERIF_EVIDENCE_DIR": os.path.join(scratch, "evidence"),
                         "VERIF_REPLAY_DIR": os.path.join(scratch, "replays")})
            t0 = time.time()
            rc, out = run([PY, os.path.join(VERIF, "simx", "main.py"), c, "quick"], VERIF, cenv)
            caught = rc == 1 and ("VIOLATION property=%s" % c) in out
            lines = [ln.strip() for ln in out.splitlines() if ln.startswith("  ")]
            results[c] = {"caught": caught, "exit": rc, "first_violation": lines[:1], "seconds": round(time.time() - t0)}
            print("check %s quick: %s  %s" % (c, "CAUGHT" if caught else "missed (exit %d)" % rc, lines[:1]))
            if not caught and os.environ.get("SEED_IMPORT_THOROUGH"):
                t0 = time.time()
                rc, out = run([PY, os.path.join(VERIF, "simx", "main.py"), c, "thorough"], VERIF, cenv, timeout=4 * 3600)
                caught_t = rc == 1 and ("VIOLATION property=%s" % c) in out
                lines = [ln.strip() for ln in out.splitlines() if ln.startswith("  ")]
                results[c]["thorough"] = {"caught": caught_t, "exit": rc, "first_violation": lines[:1],
                                          "seconds": round(time.time() - t0)}
                print("check %s thorough: %s  %s" % (c, "CAUGHT" if caught_t else "missed (exit %d)" % rc, lines[:1]))
        meta["checks"] = results
        if ok:
            out_dir = os.path.join(VERIF, "seeded", sid)
            os.makedirs(out_dir, exist_ok=True)
            for src, name in ((patch, "patch.diff"), (demo, "demo.py")):
                dstp = os.path.join(out_dir, name)
                if os.path.realpath(src) != os.path.realpath(dstp):
                    shutil.copy(src, dstp)
            old = {}
            mp = os.path.join(out_dir, "meta.json")
            if os.path.exists(mp):
                old = json.load(open(mp))
            old.update(meta)
            json.dump(old, open(mp, "w"), indent=1)
        return 0 if ok else 1
    finally:
        shutil.rmtree(scratch, ignore_errors=True)


sys.exit(main())

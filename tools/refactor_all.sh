#!/bin/sh
# every property-preserving change under refactorings/ must leave all quick checks silent
HERE=$(cd "$(dirname "$0")/.." && pwd)
cd "$HERE" || exit 3
bad=0
for d in refactorings/*/; do
  [ -f "$d/patch.diff" ] || continue
  out=$(tools/refactor_check.py "$d/patch.diff" 2>&1)
  n=$(echo "$out" | tail -1)
  echo "$d $n"
  case "$n" in "alarms: 0") ;; *) bad=1; echo "$out" | grep -v "exit=0" | head -12;; esac
done
echo "refactor_all finished bad=$bad"

#!/usr/bin/env python3
"""Runs every claimed quick check against a scratch clone of /repo with a BEHAVIOUR-PRESERVING patch applied.
Expected: every check exits 0 (an alarm here is either a refactoring that is not property-preserving after all,
or a false alarm of the machinery - to be investigated by hand).   usage: refactor_check.py <patch.diff> [checks...]"""
import os, shutil, subprocess, sys, tempfile, time
VERIF = os.path.dirname(os.path.dirname(os.path.abspath(__file__)))
PY = "/venv/bin/python"
ALL = ["C01", "C02", "C03", "C04", "C05", "C06", "C07", "C08", "C09", "C13", "C15", "C16", "C17", "C18", "C19"]
patch = os.path.abspath(sys.argv[1])
checks = sys.argv[2:] or ALL
scratch = tempfile.mkdtemp(prefix="simx_refac_", dir="/tmp")
bad = 0
try:
    dst = os.path.join(scratch, "repo")
    subprocess.run(["git", "clone", "-q", "--no-hardlinks", "/repo", dst], check=True)
    ap = subprocess.run(["git", "-C", dst, "apply", patch], capture_output=True, text=True)
    if ap.returncode != 0:
        print("PATCH DOES NOT APPLY:", ap.stderr); sys.exit(2)
    bp = subprocess.run([PY, "-m", "pytest", "-q", "-p", "no:cacheprovider", "--timeout=900", "tests"], capture_output=True,
                        text=True, cwd=dst, env=dict(os.environ, PYTHONPATH=dst))
    print("test suite:", bp.stdout.strip().splitlines()[-1] if bp.stdout.strip() else "?")
    for c in checks:
        env = dict(os.environ)
        env.update({"PYTHONHASHSEED": "0", "PYTHONPATH": dst + os.pathsep + VERIF, "VERIF_REPO": dst,
                    "VERIF_EVIDENCE_DIR": os.path.join(scratch, "evidence"), "VERIF_REPLAY_DIR": os.path.join(scratch, "replays")})
        t0 = time.time()
        p = subprocess.run([PY, os.path.join(VERIF, "simx", "main.py"), c, "quick"], capture_output=True, text=True, env=env, cwd=VERIF)
        last = p.stdout.strip().splitlines()[-1] if p.stdout.strip() else ""
        print("%s exit=%d %s" % (c, p.returncode, last[:160]))
        if p.returncode != 0:
            bad += 1
            for ln in p.stdout.splitlines():
                if ln.startswith("  ") or "HARNESS" in ln or "VIOLATION" in ln:
                    print("    " + ln[:400])
            if p.returncode == 1:   # keep the replay for inspection
                rd = os.path.join(scratch, "replays")
                if os.path.isdir(rd):
                    for f in os.listdir(rd):
                        shutil.copy(os.path.join(rd, f), "/tmp/refac_" + f)
        sys.stdout.flush()
finally:
    shutil.rmtree(scratch, ignore_errors=True)
print("alarms: %d" % bad)

#!/bin/sh
# tools/run_thorough.sh [ids...] : thorough tier of every claimed check, one after the other; copies the evidence to
# /verif/results/thorough/<id>.json and prints one line per check
HERE=$(cd "$(dirname "$0")/.." && pwd)
cd "$HERE" || exit 3
IDS=${*:-C07 C06 C13 C09 C08 C04 C16 C15 C05 C02 C17 C19 C01 C18 C03}
mkdir -p /verif/results/thorough
for p in $IDS; do
  out=$(bin/check $p thorough 2>&1); rc=$?
  echo "$p exit=$rc $(echo "$out" | tail -1)"
  if [ $rc != 0 ]; then echo "$out" | grep -E "VIOLATION|HARNESS|^  " | head -8; fi
  cp -f "$HERE/evidence/$p.json" /verif/results/thorough/$p.json 2>/dev/null
  cp -f "$HERE"/replays/$p-*.json /verif/results/thorough/ 2>/dev/null
done
echo "thorough finished"

#!/usr/bin/env python3
"""Regenerates MANIFEST.json from the table below (kept in one place so it stays valid)."""
import json, os
HERE = os.path.dirname(os.path.dirname(os.path.abspath(__file__)))

TECH = "deterministic simulation with fault injection"
CHECKS = {
 "C01": ("exploration", "seeded search over simulated deployments (plans = swarm configuration + caller schedule + per-operation entropy / adversary RNG tape); invariant sum(importance)==explained_loss evaluated after every operation, with == (and an exact result type) in exact-rational worlds incl. plain fractions.Fraction; float worlds also with an everywhere-discontinuous loss; a stratum on the real TreeStorage/TreeImputer",
         "4/C01", "stub models/losses are deterministic; exact worlds use a float-absorbing Fraction or fractions.Fraction; bounds d<=6, n_inner<=4, T<=60 (long stratum up to 400)"),
 "C02": ("exploration", "refinement of an independent closed-form PFI reference driven by the recorded seam history, on every prefix of seeded simulated schedules",
         "4/C02", "reference reads inner predictions off the imputer seam; default-imputer worlds group model calls by n_inner"),
 "C03": ("exploration", "refinement of an independent closed-form SAGE reference (order read off the imputer calls) on every prefix of seeded simulated schedules incl. growing label sets",
         "4/C03", "order inferred from model inputs when no explicit imputer is used (unique row values); unobservable orders are counted, not judged"),
}
NA = {
 "C10": "pure function of a number stream and alpha: no draw, call-out, shared state, schedule or fault for a simulator to control (DESIGN.md section 5)",
 "C11": "pure function of the update history of a private ring buffer that no explainer uses; nothing to schedule or fault (section 5)",
 "C12": "pure function of the sequence of update dictionaries; the numeric-type sweep is input generation, not simulation (section 5)",
 "C14": "pure function of the prediction function's output shape/dtype and the input dict; no draw, fault or interleaving (section 5)",
 "C20": "numerical-analysis bound on a pure function of a long ill-conditioned input stream; needs exact oracle + adversarial inputs, not schedules/faults (section 5)",
}

def main():
    extra = {}
    p = os.path.join(HERE, "tools", "manifest_checks.json")
    if os.path.exists(p):
        extra = json.load(open(p))
    checks = []
    table = dict(CHECKS)
    for k, v in extra.get("checks", {}).items():
        table[k] = tuple(v)
    for pid in sorted(table):
        level, text, ref, note = table[pid]
        checks.append({
            "property_id": pid,
            "quick_cmd": "bin/check %s quick" % pid,
            "thorough_cmd": "bin/check %s thorough" % pid,
            "evidence_file": "evidence/%s.json" % pid,
            "replay_cmd_template": "bin/replay {path}",
            "engine": "simx",
            "level_claimed": {"category": level, "text": text, "design_ref": "DESIGN.md section " + ref},
            "level_note": note,
            "technique": TECH,
        })
    na = [{"property_id": k, "reason": v} for k, v in sorted(NA.items()) if k not in table]
    for k, v in sorted(extra.get("pending", {}).items()):
        if k not in table:
            na.append({"property_id": k, "reason": v})
    na.sort(key=lambda d: d["property_id"])
    m = {
        "version": 1,
        "setup_cmd": "/venv/bin/python -c \"import sys, numpy, scipy, river, ixai; assert ixai.__file__.startswith('/repo/'), ixai.__file__; print('simx setup ok', sys.version.split()[0])\"",
        "hooks": {
            "guard": "IXAI_VERIF",
            "enable": "no source hooks exist: every seam is a constructor argument or a module-level attribute (random.*, numpy.random.*, time.*) patched inside the harness process only; checks import ixai straight from /repo's working tree",
            "baseline_off_cmd": "cd /repo && /venv/bin/python -m pytest -ra -q -p no:cacheprovider --timeout=900 --continue-on-collection-errors tests",
            "source_commits": [],
            "add_only": True,
        },
        "engines": [{"name": "simx", "path": "simx/", "serves_properties": sorted(table),
                     "kind_free_text": "deterministic simulation with fault injection: plan-as-data seeded scheduler, per-operation entropy, adversary RNG tape, recording/fault proxies subclassing the real ixai classes, exact-rational arithmetic, closed-form reference models, ddmin minimiser, fresh-interpreter replay"}],
        "checks": checks,
        "not_applicable": na,
        "notes": "All checks: exit 0 held / 1 VIOLATION / 3 harness error. VERIF_SEED seeds everything. Known findings in known_findings.json. See DESIGN.md.",
    }
    with open(os.path.join(HERE, "MANIFEST.json"), "w") as f:
        json.dump(m, f, indent=1)
        f.write("\n")
    print("MANIFEST.json: %d checks, %d not applicable" % (len(checks), len(na)))

main()

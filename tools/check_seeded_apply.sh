#!/bin/sh
# every seeded / catalogue patch must still apply to /repo's HEAD (run after each fix: commit)
fail=0
for f in /verif/seeded/*/patch.diff /verif/selftest/mutants/*.diff; do
  git -C /repo apply --check "$f" 2>/dev/null || { echo "DOES NOT APPLY: $f"; fail=1; }
done
[ $fail = 0 ] && echo "all patches apply"
exit $fail

#!/bin/sh
# tools/seed_sweep.sh "<seeds>" [tier] : every claimed check under several VERIF_SEEDs; prints any exit code != 0
HERE=$(cd "$(dirname "$0")/.." && pwd)
cd "$HERE" || exit 3
TIER=${2:-quick}
bad=0
for sd in $1; do
  for p in C01 C02 C03 C04 C05 C06 C07 C08 C09 C13 C15 C16 C17 C18 C19; do
    out=$(VERIF_SEED=$sd bin/check $p $TIER 2>&1); rc=$?
    echo "seed=$sd $p exit=$rc $(echo "$out" | tail -1)"
    if [ $rc != 0 ]; then bad=1; echo "$out" | grep -E "VIOLATION|HARNESS|^  " | head -5; fi
  done
done
echo "sweep finished bad=$bad"

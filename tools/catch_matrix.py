#!/usr/bin/env python3
"""Builds the markdown catch matrix for DESIGN.md section 12 from a `bin/selftest mutants` log."""
import re, sys, json, os
log = open(sys.argv[1]).read().splitlines()
rows = []
for ln in log:
    m = re.match(r"^(\S+)\s+(C\d\d)\s+(CAUGHT|MISSED\(exit \d+\)|BASELINE-BROKEN|PATCH-FAILED)\s*(.*)$", ln)
    if m:
        rows.append(m.groups())
print("| change | property | result | first violation reported by the quick check |")
print("|---|---|---|---|")
for name, prop, res, detail in rows:
    detail = re.sub(r"\s+\[\d+s\]$", "", detail)
    oracle = detail.split(":")[0] if res == "CAUGHT" else ""
    nm = name.replace(".diff", "")
    print("| `%s` | %s | %s | %s |" % (nm, prop, "caught" if res == "CAUGHT" else res.lower(), oracle))
